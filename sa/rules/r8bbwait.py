"""R8.bbwait — ncbbio_wait(): the burst-buffer driver splits an id list into its own put requests (even ids) and the
ncmpio driver's get requests (odd ids), reorders the list to hand each part on, and restores the order afterwards.
The whole function is evaluated by the analyser on small id lists (up to 4 entries drawn from three put ids, two get ids
and NC_REQ_NULL, every order, with and without a status array, log initialised or not, independent or collective mode)
with the two completion routines replaced by recorders.  Specification: every named put request is completed exactly
once with its own id, every named get id reaches the ncmpio driver exactly once (halved), NC_REQ_NULL entries complete
nothing; statuses[p] is the status of the request named at req_ids[p] (0 for NC_REQ_NULL, NC_EINVAL_REQUEST for a put on a
file whose log is not initialised); when nothing failed every entry of the list is NC_REQ_NULL afterwards; a failing put
completion makes the function return non-zero."""
import itertools
import concrete
from frontend import AnalysisBroken

REQ_NULL = -1


def check(ctx, fn, rule, einval_request, indep_bit):
    pool = [2, 4, 6, 1, 3, REQ_NULL]
    cells = 0
    bad = None
    for ln in range(1, 5):
        for ids in itertools.product(pool, repeat=ln):
            real = [x for x in ids if x != REQ_NULL]
            if len(set(real)) != len(real):
                continue
            for inited, with_status, indep, failing in itertools.product((1, 0), (1, 0), (1, 0), (None, 2, 4)):
                if failing is not None and (failing not in ids or not inited or not with_status):
                    continue
                env = {"$dyn": True, "num_reqs": ln, "ncbbp->inited": inited, "ncbbp->flag": indep_bit if indep else 0,
                       "req_ids": ("P", "req_ids", 0), "statuses": ("P", "statuses", 0) if with_status else 0,
                       "ncdp": 1, "ncbbp->ncp": 2, "reqMode": 0, "$ret:NCI_Malloc_fn": ("P", "swapidx", 0)}
                for k, x in enumerate(ids):
                    env["req_ids[%d]" % k] = x
                    env["statuses[%d]" % k] = 777
                puts, gets, calls = [], [], []

                def handle_put(bb, rid, statp, env=env, puts=puts, failing=failing):
                    puts.append(rid)
                    if isinstance(statp, tuple) and statp[0] == "A":
                        env[statp[1]] = 100 + rid
                    return -31 if failing is not None and rid * 2 == failing else 0

                def drv_wait(ncp, n, idp, stp, mode, env=env, gets=gets, calls=calls):
                    calls.append(n)
                    if not isinstance(n, int) or n < 0:
                        return 0
                    for k in range(n):
                        if not (isinstance(idp, tuple) and idp[0] == "P"):
                            raise AnalysisBroken("%s: the id list handed to the ncmpio driver is not modelled" % fn.name)
                        slot = "%s[%d]" % (idp[1], idp[2] + k)
                        rid = env.get(slot)
                        gets.append(rid)
                        if isinstance(stp, tuple) and stp[0] == "P":
                            env["%s[%d]" % (stp[1], stp[2] + k)] = 200 + (rid if isinstance(rid, int) else 0)
                        env[slot] = REQ_NULL
                    return 0
                env["$impl"] = {"ncbbio_handle_put_req": handle_put, "driver->wait": drv_wait}
                try:
                    concrete.run_region(fn, (fn.entry, 0), set(), env, events=None, max_steps=4000)
                except concrete.Unsupported as u:
                    raise AnalysisBroken("%s is no longer interpretable: %s" % (fn.name, u))
                except KeyError as u:
                    raise AnalysisBroken("%s reads an unbound location %s" % (fn.name, u))
                cells += 1
                if bad is not None:
                    continue
                why = None
                want_puts = sorted(x // 2 for x in real if x % 2 == 0) if inited else []
                want_gets = sorted(x // 2 for x in real if x % 2 == 1)
                if sorted(puts) != want_puts:
                    why = "put requests completed: %s, named: %s" % (sorted(puts), want_puts)
                elif sorted(g for g in gets if g != REQ_NULL) != want_gets or len(gets) != len(want_gets):
                    why = "get ids handed to the ncmpio driver: %s, named (halved): %s" % (gets, want_gets)
                elif len(calls) > 1:
                    why = "the ncmpio driver's wait is entered %d times" % len(calls)
                elif not indep and not calls:
                    why = "collective mode: the ncmpio driver's (collective) wait is not entered"
                if why is None and with_status:
                    for p, x in enumerate(ids):
                        if x == REQ_NULL:
                            want = 0
                        elif x % 2 == 0:
                            want = 100 + x // 2 if inited else einval_request
                        else:
                            want = 200 + x // 2
                        got = env.get("statuses[%d]" % p)
                        if got != want:
                            why = "statuses[%d] (request id %s) is %s, that request's status is %s - statuses are attributed to " \
                                  "the wrong list entries" % (p, "NC_REQ_NULL" if x == REQ_NULL else x, got, want)
                            break
                if why is None and failing is None and inited:
                    left = [env.get("req_ids[%d]" % k) for k in range(ln)]
                    if any(v != REQ_NULL for v in left):
                        why = "nothing failed but the id list is %s afterwards, not all NC_REQ_NULL" % left
                if why is None and failing is not None and not env.get("$ret"):
                    why = "completing put request %d fails but the function returns NC_NOERR" % failing
                if why:
                    bad = (["NC_REQ_NULL" if x == REQ_NULL else x for x in ids], inited, with_status, indep, why)
    inst = "%s:split" % fn.name
    if bad:
        ctx.fail(rule, fn.name, "split", "id list %s (log initialised=%d, status array=%d, independent=%d): %s" % bad, fn=fn,
                 line=fn.line, inst=inst)
    else:
        ctx.ok(rule, inst, "%d (id list, mode) cells: each request completed once by its own driver, statuses by list position" % cells)
    return cells
