"""Two rules about the cached sizes of header objects (NC_dim / NC_var / NC_attr).  The header size function
(hdr_len_NC_*) and the data-mode "may this object be overwritten in place" tests read cached fields — `name_len`, `xsz`
— instead of recomputing them; both rules keep those caches honest.

R4.namelen   every store to a `name_len` field is the length of the string stored in the `name` field of the same
             object: strlen() of that very expression, a local whose only definition is that strlen(), the cached
             length of another object (copy), the out-pair of hdr_get_NC_name, or a (name, name_len) parameter pair —
             then every caller is held to the same forms.

R4.growguard a data-mode in-place update is refused with NC_ENOTINDEFINE by comparing the new size with the existing
             object's: the field compared must be one the header size function reads for that object type (a field it
             does not read says nothing about the space the object occupies), and the other operand must be what the
             function stores into that field when it goes ahead (or the same field of the source object)."""
from facts import walk, strip, strip_pre, const_value, show, canon, lvalue_key, macro_of
from frontend import AnalysisBroken
import cfg
import patterns

OBJ_RECS = ("NC_dim", "NC_var", "NC_attr")


def _field_store(x, field):
    if x.get("k") != "asg" or x.get("op") != "=":
        return None
    l = strip(x["a"])
    if l.get("k") == "mem" and l.get("f") == field and l.get("rec") in OBJ_RECS:
        return l
    return None


def _is_strlen_of(e, text):
    e = strip(e)
    while isinstance(e, dict) and e.get("k") == "cast":
        e = strip(e["e"])
    return isinstance(e, dict) and e.get("k") == "call" and e.get("fn") == "strlen" and e.get("args") and canon(e["args"][0]) == text


def _local_defs(fn, name_id):
    out = []
    for b, i, e in fn.elements():
        if e.get("k") == "decl":
            for v in e.get("vars", []):
                if v.get("id") == name_id and v.get("init") is not None:
                    out.append(v["init"])
        for x in walk(e):
            if x.get("k") == "asg":
                l = strip(x["a"])
                if l.get("k") == "ref" and l.get("id") == name_id:
                    out.append(x["b"] if x.get("op") == "=" else None)
    return out


def _length_ok(fn, len_expr, name_text, name_expr):
    """(ok, how) for one (length expression, name expression) pair inside fn; how == 'param' asks for the callers"""
    le = strip(len_expr)
    while isinstance(le, dict) and le.get("k") == "cast":
        le = strip(le["e"])
    if _is_strlen_of(le, name_text):
        return True, "strlen(%s)" % name_text
    if isinstance(le, dict) and le.get("k") == "mem" and le.get("f") == "name_len" and le.get("rec") in OBJ_RECS:
        return True, "cached length of %s" % canon(le["b"])
    if isinstance(le, dict) and le.get("k") == "ref":
        ne = strip(name_expr)
        if le.get("dk") == "param" and isinstance(ne, dict) and ne.get("k") == "ref" and ne.get("dk") == "param":
            return True, "param"
        if le.get("dk") == "local":
            defs = [d for d in _local_defs(fn, le.get("id")) if not (d is not None and const_value(d) == 0)]
            if defs and all(d is not None and _is_strlen_of(d, name_text) for d in defs):
                return True, "%s = strlen(%s)" % (le["n"], name_text)
            # out-pair of the header reader: hdr_get_NC_name(gbp, &name, &name_len)
            for b, i, c in patterns.call_sites(fn, lambda n: n == "hdr_get_NC_name"):
                a = c.get("args", [])
                if len(a) == 3 and canon(a[1]) == "&" + name_text and canon(a[2]) == "&" + le["n"] and not defs:
                    return True, "pair read by hdr_get_NC_name"
            bad = [d for d in defs if d is None or not _is_strlen_of(d, name_text)]
            if bad and bad[0] is not None:
                return False, "`%s = %s`" % (le["n"], canon(bad[0])[:50])
    return False, "`%s`" % canon(len_expr)[:50]


def check_namelen(ctx, prog, rule):
    from callgraph import CallGraph
    cg = None
    n = 0
    for fn in prog.all_functions():
        stores_len, stores_name = [], {}
        for b, i, e in fn.elements():
            for x in walk(e):
                l = _field_store(x, "name_len")
                if l is not None:
                    stores_len.append((l, x))
                l = _field_store(x, "name")
                if l is not None:
                    stores_name[canon(l["b"])] = x["b"]
        for l, x in stores_len:
            n += 1
            ctx.functions_analysed.add((fn.unit.name, fn.name))
            base = canon(l["b"])
            inst = "%s:%s.name_len" % (fn.name, base)
            nm = stores_name.get(base)
            if nm is None:
                ctx.fail(rule, fn.name, "%s.name_len" % base, "the cached name length of `%s` is stored without its name" % base,
                         fn=fn, line=x.get("l", 0), inst=inst)
                continue
            ok, how = _length_ok(fn, x["b"], canon(nm), nm)
            if ok and how == "param":
                # every caller passes a pair of the accepted forms
                if cg is None:
                    cg = CallGraph(prog)
                pn = [p["n"] for p in fn.params]
                ni, li = pn.index(strip(nm)["n"]), pn.index(strip(x["b"])["n"])
                sites = cg.callers.get(fn.name, [])
                if not sites:
                    raise AnalysisBroken("%s: %s takes (name, name_len) but has no caller in the analysed units" % (rule, fn.name))
                for cfn, cb, ci, call in sites:
                    a = call.get("args", [])
                    ok2, how2 = _length_ok(cfn, a[li], canon(a[ni]), a[ni])
                    inst2 = "%s->%s:name_len" % (cfn.name, fn.name)
                    if ok2 and how2 != "param":
                        ctx.ok(rule, inst2, how2)
                    else:
                        ctx.fail(rule, cfn.name, "%s:name_len" % fn.name, "%s() is given the name `%s` with the length %s: the cached "
                                 "name_len decides the header size and the in-place rename test, the name written is the string itself"
                                 % (fn.name, canon(a[ni])[:40], how2), fn=cfn, line=call.get("l", 0), inst=inst2)
                continue
            if ok:
                ctx.ok(rule, inst, how)
            else:
                ctx.fail(rule, fn.name, "%s.name_len" % base, "`%s->name` is set to `%s` but its cached length comes from %s: header size, "
                         "data offsets and the data-mode rename test are computed from a length that is not the stored name's"
                         % (base, canon(nm)[:40], how), fn=fn, line=x.get("l", 0), inst=inst)
    ctx.require(n >= 8, "%s: only %d stores to a name_len field found" % (rule, n))
    return n


def _size_fields(prog):
    """record type -> fields its hdr_len_NC_<type> function reads directly"""
    out = {}
    for rec, fname in (("NC_dim", "hdr_len_NC_dim"), ("NC_var", "hdr_len_NC_var"), ("NC_attr", "hdr_len_NC_attr")):
        fns = prog.fns(fname)
        if not fns:
            raise AnalysisBroken("size function %s not found" % fname)
        fs = set()
        for b, i, e in fns[0].elements():
            for x in walk(e, into_pre=True):
                if x.get("k") == "mem" and x.get("rec") == rec:
                    fs.add(x["f"])
        if not fs:
            raise AnalysisBroken("%s reads no field of %s" % (fname, rec))
        out[rec] = fs
    return out


def check_growguard(ctx, prog, rule, notindefine):
    """notindefine: integer value of NC_ENOTINDEFINE"""
    size_fields = _size_fields(prog)
    n = 0
    for fn in prog.all_functions():
        for bid, blk in fn.blocks.items():
            c = blk.cond
            if c is None or len(blk.succs) != 2:
                continue
            c = strip_pre(c)
            if not isinstance(c, dict) or c.get("k") != "bin" or c.get("op") not in ("<", ">", "<=", ">="):
                continue
            # the true side must assign NC_ENOTINDEFINE straight away
            t = blk.succs[0]
            if t is None:
                continue
            sets = False
            for e in fn.blocks[t].elems:
                for x in walk(e):
                    if x.get("k") == "asg" and (macro_of(x["b"]) == "NC_ENOTINDEFINE" or const_value(x["b"]) == notindefine):
                        sets = True
            if not sets:
                continue
            # and the test sits under !NC_indef(...)
            indef = False
            for d in cfg.dominators(fn).get(bid, set()):
                dc = fn.blocks[d].cond
                if dc is not None and ("NC_indef" in show(dc) or "NC_MODE_DEF" in show(dc) or "NC_MODE_CREATE" in show(dc)):
                    indef = True
            if not indef:
                continue
            sides = [strip(c["a"]), strip(c["b"])]
            objs = [s for s in sides if isinstance(s, dict) and s.get("k") == "mem" and s.get("rec") in OBJ_RECS]
            if not objs:
                continue
            n += 1
            ctx.functions_analysed.add((fn.unit.name, fn.name))
            # the existing object is the smaller side: new > old  /  old < new
            if c["op"] in (">", ">="):
                old, new = sides[1], sides[0]
            else:
                old, new = sides[0], sides[1]
            site = "grow:%s" % canon(old)[-40:]
            inst = "%s:%s" % (fn.name, site)
            if not (isinstance(old, dict) and old.get("k") == "mem" and old.get("rec") in OBJ_RECS):
                ctx.fail(rule, fn.name, site, "the in-place test `%s` does not compare against the existing object's size" % canon(c)[:70],
                         fn=fn, line=blk.tl or fn.line, inst=inst)
                continue
            f, rec = old["f"], old["rec"]
            if f not in size_fields[rec]:
                ctx.fail(rule, fn.name, site, "data-mode overwrite is refused by comparing `%s`, but the header size function reads %s of a %s, "
                         "not `%s`: an overwrite that needs more header bytes is accepted (the header grows into the data), one that fits is refused"
                         % (canon(c)[:70], "/".join(sorted(size_fields[rec])), rec, f), fn=fn, line=blk.tl or fn.line, inst=inst)
                continue
            # the other operand is what ends up in the same field
            okn = False
            if isinstance(new, dict) and new.get("k") == "mem" and new.get("f") == f and new.get("rec") == rec:
                okn = True      # same field of the source object (copy)
            else:
                nt = canon(new)
                for b2, i2, e2 in fn.elements():
                    for x in walk(e2):
                        l = _field_store(x, f)
                        if l is not None and canon(x["b"]) == nt:
                            okn = True
                        # or passed to the constructor in the slot that becomes the field (put_att: new_NC_attr(..) computes xsz itself)
                if not okn and f == "xsz":
                    # xsz of a new attribute is computed by x_len_NC_attrV(xtype, nelems): accept a local with that sole definition
                    ne = strip(new)
                    if isinstance(ne, dict) and ne.get("k") == "ref" and ne.get("dk") == "local":
                        defs = [d for d in _local_defs(fn, ne.get("id")) if not (d is not None and const_value(d) == 0)]
                        okn = bool(defs) and all(d is not None and strip(d).get("k") == "call" and "x_len_NC_attrV" in (strip(d).get("fn") or "") for d in defs)
            if okn:
                ctx.ok(rule, inst, "compares %s.%s, which the size function reads, with the value that replaces it" % (rec, f))
            else:
                ctx.fail(rule, fn.name, site, "`%s` is compared with the existing %s.%s but is not what the function stores there"
                         % (canon(new)[:40], rec, f), fn=fn, line=blk.tl or fn.line, inst=inst)
    ctx.require(n >= 5, "%s: only %d data-mode growth tests found" % (rule, n))
    return n
