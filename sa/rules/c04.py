"""C04 — any specification-valid classic file is read back: the reader's side of the header grammar.

 R7.spec(dec)  every hdr_get_NC_* production, summarised per version from its CFG, equals the specification grammar
               (so layouts this library would not write but the grammar allows are parsed field for field).
 R7.seq        encoder and decoder summaries are equal production by production (writer's dialect = reader's).
 R9a.refill    every fixed-width read from the sliding window is dominated by `pos + W > end -> hdr_fetch` with W at least
               the width read (a word straddling a chunk boundary is re-fetched, whatever the chunk size).
 R8.fetch      hdr_fetch: for every fill level of the window the unread tail is moved to the front, the read continues
               at the file offset that follows it, and the window position is rewound (bounded evaluation of the slice).
 R4.vsize      the vsize read from the file is recomputed from the dimensions before any use (stale / saturated
               vsize fields are harmless): compute_var_shape -> ncmpio_NC_var_shape64 on every successful open path.
 R6.geomsrc    begin_rec / begin_var come from the file's own offsets (arbitrary gaps are honoured) — shared with C06.
Exact equality of inquiries and data with the encoded content is not decided."""
from facts import walk, strip, strip_pre, const_value, show, canon, lvalue_key
from frontend import AnalysisBroken
import cfg
import patterns
import concrete
from rules import r7, c06

READS = {"ncmpix_get_uint32": 4, "ncmpix_get_uint64": 8}


def check_refill(ctx, prog):
    n = 0
    for fn in prog.all_functions():
        if not fn.relfile().endswith("ncmpio_header_get.c"):
            continue
        for b, i, c in patterns.call_sites(fn, lambda nm: nm in READS or nm == "ncmpix_getn_text"):
            if c["fn"] in READS:
                width = READS[c["fn"]]
            else:
                width = const_value(c["args"][1])
            n += 1
            inst = "%s:%s#%d" % (fn.name, c["fn"], n)
            ok = None
            for d in cfg.dominators(fn).get(b.id, ()):
                blk = fn.blocks[d]
                cnd = strip_pre(blk.cond) if blk.cond is not None else None
                if not (isinstance(cnd, dict) and cnd.get("k") == "bin" and cnd.get("op") in (">", ">=")):
                    continue
                ta, tb = canon(cnd["a"]), canon(cnd["b"])
                if not (ta.endswith("pos + %s" % width) or "pos +" in ta) or not tb.endswith("end"):
                    continue
                add = None
                for x in walk(cnd["a"], into_pre=True):
                    if x.get("k") == "bin" and x.get("op") == "+":
                        add = const_value(x["b"]) if const_value(x["b"]) is not None else const_value(x["a"])
                tblk = fn.blocks[blk.succs[0]] if blk.succs[0] is not None else None
                fetch = tblk is not None and any(cc.get("fn") == "hdr_fetch" for e in tblk.elems for cc in walk(e) if cc.get("k") == "call")
                if add is not None and width is not None and add >= width and fetch:
                    ok = "`pos + %d > end` -> hdr_fetch" % add
            if ok is None and fn.name == "ncmpio_hdr_get_NC":
                # the first reads follow the unconditional initial fetch of a window of at least MIN_NC_XSZ+4 bytes
                first = patterns.call_sites(fn, lambda nm: nm == "hdr_fetch")
                if first and cfg.pos_dominates(fn, (first[0][0].id, first[0][1]), (b.id, i)) and width is not None and width <= 8:
                    ok = "within the first window (>= 36 bytes) right after the initial hdr_fetch"
            if ok:
                ctx.ok("R9a.refill", inst, ok)
            else:
                ctx.fail("R9a.refill", fn.name, "%s(%s bytes)" % (c["fn"], width), "this %s-byte read from the header window is not "
                         "preceded by a `pos + %s > end` -> hdr_fetch test: a field straddling a read-chunk boundary is read "
                         "past the window" % (width, width), fn=fn, line=c.get("l", fn.line), inst=inst)
    ctx.require(n >= 5, "R9a.refill: only %d window reads found in ncmpio_header_get.c" % n)


def check_fetch(ctx, prog):
    fn = ctx.need_fn(prog, "hdr_fetch")
    chunk, base = (72 if ctx.tier == 'thorough' else 40), 1000
    bad = None
    nconf = 0
    for coll in (0, 1):
        for k in list(range(0, chunk + 1)):
            off = 400
            env = {"$dyn": True, "gbp->chunk": chunk, "gbp->base": base, "gbp->pos": base + k, "gbp->end": base + chunk,
                   "gbp->offset": off, "gbp->coll_mode": coll, "gbp->safe_mode": 0, "gbp->get_size": 0, "gbp->comm": 1,
                   "gbp->collective_fh": 3}
            ops = []

            def hook(e, args, env):
                f = e.get("fn")
                if f in ("MPI_Comm_rank", "MPI_Comm_size"):
                    t = strip(e["args"][1])
                    env[concrete.lv_name(t["e"])] = 0 if f == "MPI_Comm_rank" else 1
                elif f == "memmove":
                    ops.append(("move", args[0], args[1], args[2]))
                elif f in ("MPI_File_read_at_all", "MPI_File_read_at"):
                    ops.append(("read", args[1], args[2], args[3]))
                elif f == "MPI_Get_count":
                    t = strip(e["args"][2])
                    env[concrete.lv_name(t["e"])] = [o for o in ops if o[0] == "read"][-1][3]
            try:
                concrete.run_region(fn, (fn.entry, 0), set(), env, events=None, max_steps=2000, call_hook=hook)
            except concrete.Unsupported as e:
                raise AnalysisBroken("R8.fetch: hdr_fetch is no longer interpretable: %s" % e)
            nconf += 1
            # window model: before the call byte j of the window holds file byte (off - chunk + j); k bytes were consumed
            unread = chunk - k if 0 < k < chunk else 0
            rd = [o for o in ops if o[0] == "read"]
            mv = [o for o in ops if o[0] == "move"]
            why = None
            if len(rd) != 1:
                why = "%d reads" % len(rd)
            else:
                _, foff, buf, ln = rd[0]
                if unread and (not mv or mv[0][1:] != (base, base + k, unread)):
                    why = "the %d unread bytes at window offset %d are not moved to the front (memmove %s)" % (unread, k, mv)
                elif buf != base + unread or ln != chunk - unread:
                    why = "reads %s bytes into window offset %s (expected %d bytes at offset %d)" % (ln, buf - base, chunk - unread, unread)
                elif foff != off:
                    why = "reads at file offset %s, the unread data ends at %d" % (foff, off)
                elif env.get("gbp->offset") != off + chunk - unread:
                    why = "file offset advances to %s (expected %d)" % (env.get("gbp->offset"), off + chunk - unread)
                elif env.get("gbp->pos") != base:
                    why = "window position is not rewound"
            if why and not bad:
                bad = (k, why)
    if bad:
        ctx.fail("R8.fetch", fn.name, "slack", "with %d of %d window bytes consumed: %s" % (bad[0], chunk, bad[1]), fn=fn,
                 line=fn.line, inst="hdr_fetch")
    else:
        ctx.ok("R8.fetch", "hdr_fetch", "%d fill levels x collective/independent: unread tail moved, read continues after it, "
               "offset and position updated" % nconf)
    ctx.notes.append("R8.fetch is a bounded evaluation of hdr_fetch's integer slice (window of 40 bytes, every fill level)")


def check_vsize_ignored(ctx, prog):
    top = ctx.need_fn(prog, "ncmpio_hdr_get_NC")
    va = patterns.call_sites(top, lambda n: n == "hdr_get_NC_vararray")
    cs = patterns.call_sites(top, lambda n: n == "compute_var_shape")
    ctx.require(va and cs, "ncmpio_hdr_get_NC: vararray read / compute_var_shape call not found")
    # every path from the vararray read to a `return` that is not an error path passes compute_var_shape:
    # removing the compute_var_shape block must disconnect the vararray block from the exit except through blocks that
    # are entered on err != NC_NOERR
    sm = r7.Summ(top, 1, "dec")
    seen = set()
    st = [va[0][0].id]
    escaped = False
    while st:
        x = st.pop()
        if x in seen or x == cs[0][0].id:
            continue
        seen.add(x)
        blk = top.blocks[x]
        if x == top.exit:
            escaped = True
            break
        if blk.noreturn or (x != va[0][0].id and sm.error_block(blk)):
            continue
        succs = list(blk.succs)
        if blk.cond is not None and len(succs) == 2:
            d = sm.decide(blk.cond)
            if d is True:
                succs = [succs[0]]
            elif d is False:
                succs = [succs[1]]
        st.extend(s for s in succs if s is not None)
    cvs = ctx.need_fn(prog, "compute_var_shape")
    shape = patterns.call_sites(cvs, lambda n: n == "ncmpio_NC_var_shape64")
    in_loop = False
    for lp in patterns.loops(cvs):
        if shape and shape[0][0].id in lp.body and lp.bound is not None and canon(lp.bound).endswith("vars.ndefined"):
            in_loop = True
    if not escaped and in_loop:
        ctx.ok("R4.vsize", "recompute", "every successful open path passes compute_var_shape, which calls ncmpio_NC_var_shape64 "
               "for each of the vars.ndefined variables")
    else:
        ctx.fail("R4.vsize", top.name, "recompute", "a successful open path keeps the vsize read from the file (compute_var_shape "
                 "bypassed: %s; per-variable recomputation loop: %s): stale or saturated vsize fields change lengths" %
                 (escaped, in_loop), fn=top, line=top.line)


def check_streaming(ctx, fn):
    """each assignment of the decoded word to ncp->numrecs: some test compares that word (or the field) with the all-ones
    value of its width"""
    ALL_ONES = {0xFFFFFFFF, 0xFFFFFFFFFFFFFFFF, -1}
    n = 0
    for b, i, e in fn.elements():
        s_ = strip(e)
        if not (isinstance(s_, dict) and s_.get("k") == "asg" and canon(strip(s_["a"])).endswith("->numrecs")):
            continue
        src = strip(s_["b"])
        while isinstance(src, dict) and src.get("k") == "cast":
            src = strip(src["e"])
        if const_value(src) is not None:
            continue
        n += 1
        word = canon(src)
        ok = False
        for blk in fn.blocks.values():
            c = blk.cond
            if c is None:
                continue
            for x in walk(c, into_pre=True):
                if isinstance(x, dict) and x.get("k") == "bin" and x.get("op") in ("==", "!="):
                    ta, tb = canon(strip(x["a"])), canon(strip(x["b"]))
                    va, vb = const_value(x["a"]), const_value(x["b"])
                    if (ta in (word, canon(strip(s_["a"]))) and vb in ALL_ONES) or (tb in (word, canon(strip(s_["a"]))) and va in ALL_ONES):
                        ok = True
        site = "numrecs<-%s@%s" % (word, "classic" if n == 1 else "cdf5")
        inst = "%s:%s" % (fn.name, site)
        if ok:
            ctx.ok("R7.streaming", inst, "the word is compared with the STREAMING value")
        else:
            ctx.fail("R7.streaming", fn.name, site, "the record-count word is stored as a count without a test for the STREAMING value "
                     "(all ones): a specification-valid streaming file reports 2^32-1 records (CDF-1/2) or is refused (CDF-5)",
                     fn=fn, line=s_.get("l", fn.line), inst=inst)
    ctx.require(n == 2, "R7.streaming: expected the two decodes of numrecs (32- and 64-bit), found %d" % n)


def run(ctx):
    ctx.rule("R7.spec", "decoder productions equal the specification grammar for CDF-1/2/5")
    ctx.rule("R7.seq", "encoder and decoder agree production by production")
    ctx.rule("R9a.refill", "window reads are preceded by a refill test of at least their width")
    ctx.rule("R8.fetch", "hdr_fetch keeps the unread tail and continues at the right file offset (bounded)")
    ctx.rule("R4.vsize", "vsize from the file is recomputed before use")
    ctx.rule("R6.geomsrc", "begin_rec / begin_var mirror the file's offsets")
    ctx.assume("equality of all inquiry results and data with the encoded content is not decided; word bounds are C19's rules")
    prog = ctx.program(names=["ncmpio_header_put.c", "ncmpio_header_get.c"])
    n, enc, dec = r7.check_seq(ctx, prog, "R7.seq")
    r7.check_spec(ctx, "R7.spec", dec, "decoder", prog, r7.DEC)
    check_refill(ctx, prog)
    check_fetch(ctx, prog)
    check_vsize_ignored(ctx, prog)
    c06.check_geomsrc(ctx, prog)
    ctx.rule("R7.streaming", "the decoder of the record count recognises the specification's STREAMING alternative "
             "(numrecs = NON_NEG | STREAMING: the all-ones word) before it takes the word as a count")
    check_streaming(ctx, ctx.need_fn(ctx.program(names=["ncmpio_header_get.c"]), "ncmpio_hdr_get_NC"))
    from rules import r8namecopy
    ctx.rule("R8.namecopy", "hdr_get_NC_name: the pieces of a name that straddles read-window boundaries tile the name buffer (bounded: "
             "names of 1..9 bytes at every distance 0..9 from the end of a 16-byte window)")
    nn = r8namecopy.check(ctx, ctx.need_fn(ctx.program(names=["ncmpio_header_get.c"]), "hdr_get_NC_name"), "R8.namecopy")
    ctx.require(nn >= 80, "R8.namecopy: only %d cells evaluated" % nn)
    from rules import r8varshape
    ctx.rule("R8.recsize", "compute_var_shape: the reader's record size is the single record variable's unpadded bytes per record, or the "
             "sum of the record variables' padded lengths (bounded: lists of up to 3 variables)")
    nrs = r8varshape.check_recsize(ctx, ctx.need_fn(ctx.program(names=["ncmpio_header_get.c"]), "compute_var_shape"), "R8.recsize")
    ctx.require(nrs >= 80, "R8.recsize: only %d variable lists evaluated" % nrs)
    from rules import r4decodeorder
    ctx.rule("R4.decodeorder", "ncmpio_hdr_get_NC: no field of the header object the decoder derives is read (by it or the functions it "
             "hands the object to, depth 3) before the write that derives it")
    lprog = ctx.program(groups=["lib"])
    dfn = ctx.need_fn(lprog, "ncmpio_hdr_get_NC")
    ctx.functions_analysed.add((dfn.unit.name, dfn.name))
    r4decodeorder.check(ctx, lprog, dfn, "R4.decodeorder", 15)
