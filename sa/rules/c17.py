"""C17 — handle and resource lifecycle (rule family R3).

R3.id.contract  PNC_check_id returns NC_NOERR only on paths where *pncp was loaded from
                a table slot tested non-NULL.
R3.id.use       every caller dereferences the PNC pointer only after the result of
                PNC_check_id has been tested equal to NC_NOERR on that path.
R3.slot         the id table: NC_ENFILE test dominates the slot scan, the scan covers the
                whole table, slot store / counter update / id hand-out are paired,
                deletion clears the slot and decrements the counter.
R3.close        ncmpio_close: before the file object is freed, each request queue is
                either tested empty or cancelled with the matching *_REQ_ALL, and a
                path that found pending requests returns non-zero (NC_EPENDING).
"""
from absint import ValueDomain, Explorer, State, TOP, NONZERO, ONE, ZERO, Budget, AVal, fin
from facts import walk, strip, strip_pre, const_value, show, lvalue_key, macro_of, key_str, canon
from frontend import AnalysisBroken
import cfg
import patterns


# ---------------------------------------------------------------------------
class ContractDom(ValueDomain):
    def on_elem(self, elem, st, blk, idx):
        if elem.get("k") == "ret":
            return st.set("$ret", self.eval(elem.get("e"), st))
        return st


def check_contract(ctx, prog):
    fn = ctx.need_fn(prog, "PNC_check_id")
    dom = ContractDom(fn)
    ex = Explorer(fn, dom).run(State())
    ctx.states += ex.visited
    pkey = None
    for p in fn.params:
        if p["n"] == "pncp":
            pkey = ("d", ("v", p["id"], "pncp"))
    ctx.require(pkey is not None, "PNC_check_id: parameter pncp not found")
    ok_paths = 0
    bad = None
    for st, key in ex.exits:
        r = st.get("$ret")
        if isinstance(r, AVal) and not r.may_be_zero():
            continue
        ok_paths += 1
        v = st.get(pkey) if st.has(pkey) else None
        if v is None or v.may_be_zero():
            bad = (st, key)
    if ok_paths == 0:
        raise AnalysisBroken("PNC_check_id: no path returns NC_NOERR")
    if bad:
        st, key = bad
        ctx.fail("R3.id.contract", fn.name, "*pncp", "a path returns NC_NOERR with *pncp not known to be non-NULL: "
                 "the id of a closed file (slot cleared) is accepted while another file is open, and the caller "
                 "dereferences NULL", fn=fn, line=fn.line,
                 detail={"path": ex.describe_path(key), "exit_state": repr(st)})
    else:
        ctx.ok("R3.id.contract", "PNC_check_id", "%d NC_NOERR path(s), all with *pncp tested non-NULL" % ok_paths)


# ---------------------------------------------------------------------------
class UseDom(ValueDomain):
    """tracks the variable holding PNC_check_id's result until it is tested."""

    def __init__(self, fn, report):
        super().__init__(fn)
        self.report = report

    def tracked(self, key):
        if isinstance(key, str):
            return True
        if key[0] == "v":
            v = self.fn.vars.get(key[1])
            return v is not None and self.fn.type(v["t"]).get("k") in ("int", "uint")
        return False

    def on_call(self, call, st, blk, idx):
        if call.get("fn") == "PNC_check_id":
            a = strip(call["args"][1])
            if a.get("k") == "un" and a.get("op") == "&":
                pk = lvalue_key(a["e"])
                return st.set("$p", pk).set("$ok", None).set("$res", ("call", id(call)))
        return st

    def on_assign(self, key, lhs, rhs, val, st, elem):
        r = strip_pre(rhs) if rhs is not None else None
        if isinstance(r, dict) and r.get("k") == "call" and r.get("fn") == "PNC_check_id":
            return st.set("$errvar", key)
        if st.has("$errvar") and st.get("$errvar") == key and not st.has("$ok"):
            # result overwritten before being tested
            return st.set("$errvar", None)
        return st

    def on_elem(self, elem, st, blk, idx):
        if st.has("$p") and not st.has("$ok"):
            pk = st.get("$p")
            ev = st.get("$errvar", None)
            verified = ev is not None and st.has(ev) and st.get(ev).must_be(0)
            if verified:
                st = st.set("$ok", ONE)
            else:
                for x in walk(elem):
                    if x.get("k") == "mem" and x.get("arrow") and lvalue_key(x.get("b")) == pk:
                        self.report(x, st)
                        break
                    if x.get("k") == "un" and x.get("op") == "*" and lvalue_key(x.get("e")) == pk:
                        self.report(x, st)
                        break
        return st


def check_uses(ctx, prog):
    n = 0
    for fn in prog.all_functions():
        sites = patterns.call_sites(fn, lambda nm: nm == "PNC_check_id")
        if not sites:
            continue
        ctx.functions_analysed.add((fn.unit.name, fn.name))
        bad = []

        def report(node, st, bad=bad):
            bad.append(node)
        dom = UseDom(fn, report)
        try:
            ex = Explorer(fn, dom, max_states=60000).run(State())
        except Budget as e:
            raise AnalysisBroken(str(e))
        ctx.states += ex.visited
        n += 1
        if bad:
            x = bad[0]
            ctx.fail("R3.id.use", fn.name, "deref", "`%s` is used on a path where the result of PNC_check_id has not "
                     "been tested equal to NC_NOERR" % show(x)[:50], fn=fn, line=x.get("l", fn.line))
        else:
            ctx.ok("R3.id.use", fn.name, "every use of the PNC pointer follows `err == NC_NOERR`",
                   nontrivial=True)
    ctx.min_instances("R3.id.use", 800)


# ---------------------------------------------------------------------------
def check_slot(ctx, prog):
    fn = ctx.need_fn(prog, "new_id_PNCList")
    u = fn.unit
    g = u.globals.get("pnc_filelist")
    ctx.require(g is not None, "global pnc_filelist not found")
    size = u.types[g["t"]].get("n")
    ctx.require(size, "pnc_filelist is not a constant-size array")
    # (1) the full-table test dominates the scan and yields NC_ENFILE
    lps = [l for l in patterns.loops(fn) if any(lvalue_key(x.get("b")) == ("g", "pnc_filelist")
                                                for x in l.indexed_by_var())]
    ctx.require(len(lps) == 1, "new_id_PNCList: expected one scan loop over pnc_filelist, found %d" % len(lps))
    lp = lps[0]
    init = const_value(lp.init) if lp.init is not None else None
    bound = const_value(lp.bound)
    if init != 0 or bound != size or lp.op != "<" or lp.step != "++":
        ctx.fail("R3.slot", fn.name, "scan-range", "the free-slot scan covers [%s, %s) step %s, the table is "
                 "[0, %d): a free slot below the start is never reissued and NC_ENFILE is not raised" %
                 (show(lp.init) if lp.init else "?", show(lp.bound), lp.step, size), fn=fn, line=lp.head.tl or fn.line)
    else:
        ctx.ok("R3.slot", "new_id_PNCList:scan-range", "for (i=0; i<%d; i++) over pnc_filelist[%d]" % (bound, size))
    # full test
    full = None
    for bid, blk in fn.blocks.items():
        c = blk.cond
        if c is not None and c.get("k") == "bin" and c.get("op") in ("==", ">=") and \
                lvalue_key(c["a"]) == ("g", "pnc_numfiles") and const_value(c["b"]) == size:
            full = blk
    if full is None or full.id not in cfg.dominators(fn).get(lp.head.id, ()):
        ctx.fail("R3.slot", fn.name, "ENFILE-test", "no `pnc_numfiles == %d` test dominates the slot scan" % size,
                 fn=fn, line=fn.line)
    else:
        tb = fn.blocks[full.succs[0]]
        sets_enfile = any(e.get("k") == "asg" and macro_of(e["b"]) == "NC_ENFILE" for e in tb.elems)
        if sets_enfile:
            ctx.ok("R3.slot", "new_id_PNCList:ENFILE-test", "full table => NC_ENFILE before the scan")
        else:
            ctx.fail("R3.slot", fn.name, "ENFILE-test", "full-table branch does not assign NC_ENFILE", fn=fn,
                     line=full.tl or fn.line)
    # (2) pairing inside the scan: slot store, counter++, id hand-out in the same block
    paired = False
    for b in lp.body_ext:
        es = fn.blocks[b].elems
        st_slot = any(e.get("k") == "asg" and strip(e["a"]).get("k") == "idx" and
                      lvalue_key(strip(e["a"])["b"]) == ("g", "pnc_filelist") for e in es)
        inc = any(x.get("k") == "un" and "++" in x.get("op", "") and lvalue_key(x["e"]) == ("g", "pnc_numfiles")
                  for e in es for x in walk(e))
        idout = any(e.get("k") == "asg" and strip(e["a"]).get("k") == "un" and strip(e["a"]).get("op") == "*"
                    and lvalue_key(e["b"]) == lp.var_key for e in es)
        if st_slot or inc or idout:
            if st_slot and inc and idout:
                paired = True
            else:
                ctx.fail("R3.slot", fn.name, "pairing", "slot store / pnc_numfiles++ / *new_id = i are not done "
                         "together (store=%s, count=%s, id=%s)" % (st_slot, inc, idout), fn=fn,
                         line=fn.blocks[b].tl or fn.line)
    if paired:
        ctx.ok("R3.slot", "new_id_PNCList:pairing", "slot store, counter increment and id hand-out in one block")
    # deletion
    d = ctx.need_fn(prog, "del_from_PNCList")
    clr = dec = False
    for b, i, e in d.elements():
        if e.get("k") == "asg" and strip(e["a"]).get("k") == "idx" and \
                lvalue_key(strip(e["a"])["b"]) == ("g", "pnc_filelist") and const_value(e["b"]) == 0:
            clr = True
        for x in walk(e):
            if x.get("k") == "un" and "--" in x.get("op", "") and lvalue_key(x["e"]) == ("g", "pnc_numfiles"):
                dec = True
    if clr and dec:
        ctx.ok("R3.slot", "del_from_PNCList", "slot cleared and counter decremented")
    else:
        ctx.fail("R3.slot", d.name, "release", "slot clear=%s, counter decrement=%s" % (clr, dec), fn=d, line=d.line)
    ctx.min_instances("R3.slot", 4)


# ---------------------------------------------------------------------------
QUEUES = {"numLeadGetReqs": ("NC_GET_REQ_ALL", "NC_REQ_ALL"), "numLeadPutReqs": ("NC_PUT_REQ_ALL", "NC_REQ_ALL")}


class CloseDom(ValueDomain):
    def tracked(self, key):
        if isinstance(key, str):
            return True
        if key[0] == "v":
            v = self.fn.vars.get(key[1])
            return v is not None and self.fn.type(v["t"]).get("k") in ("int", "uint")
        return key[0] == "m" and key[2] in ("flags",)

    def on_call(self, call, st, blk, idx):
        f = call.get("fn")
        if f in ("ncmpio_cancel", "ncmpio_wait") and len(call.get("args", [])) >= 2:
            m = macro_of(call["args"][1])
            for q, names in QUEUES.items():
                if m in names:
                    st = st.set("$done:" + q, ONE)
        if f == "ncmpio_free_NC":
            a = strip(call["args"][0])
            if a.get("k") == "ref" and a.get("n") == "ncp":
                for q in QUEUES:
                    if not st.has("$empty:" + q) and not st.has("$done:" + q):
                        st = st.set("$leak:" + q, ONE)
        return st

    def branch(self, blk, st):
        out = super().branch(blk, st)
        c = blk.cond
        if c is not None and len(blk.succs) == 2 and c.get("k") == "bin" and c.get("op") == ">" \
                and const_value(c["b"]) == 0:
            a = strip(c["a"])
            if a.get("k") == "mem" and a.get("f") in QUEUES:
                q = a["f"]
                res = []
                for succ, s2 in out:
                    if succ == blk.succs[1] and succ != blk.succs[0]:
                        res.append((succ, s2.set("$empty:" + q, ONE)))
                    else:
                        res.append((succ, s2.set("$pending", ONE)))
                return res
        return out

    def on_elem(self, elem, st, blk, idx):
        if elem.get("k") == "ret":
            return st.set("$ret", self.eval(elem.get("e"), st))
        return st


class _IdDom(ValueDomain):
    """tracks only the id lvalues handed to del_from_PNCList (e.g. `*ncidp`, `ncid`)"""
    def __init__(self, fn, keys):
        ValueDomain.__init__(self, fn)
        self.keys = keys
        self.seen = {}

    def tracked(self, key):
        return key in self.keys or isinstance(key, str)

    def on_call(self, call, st, blk, idx):
        if call.get("fn") == "del_from_PNCList" and call.get("args"):
            self.seen.setdefault(id(call), []).append(self.eval(call["args"][0], st))
        return st


def check_slot_arg(ctx, prog):
    """the id passed to del_from_PNCList is the id the table handed out: on no path has it been overwritten with a constant
    (`*ncidp = -1` before the call frees nothing, writes outside the table and leaves the slot pointing at a freed object)"""
    n = 0
    for fn in prog.all_functions():
        sites = patterns.call_sites(fn, lambda nm: nm == "del_from_PNCList")
        if not sites:
            continue
        keys = {lvalue_key(c["args"][0]) for b, i, c in sites if c.get("args")}
        keys.discard(None)
        dom = _IdDom(fn, keys)
        ex = Explorer(fn, dom, max_states=200000)
        try:
            ex.run(State())
        except Budget as e:
            raise AnalysisBroken("R3.slot: %s" % e)
        ctx.states += ex.visited
        for b, i, c in sites:
            n += 1
            ctx.functions_analysed.add((fn.unit.name, fn.name))
            inst = "%s:del_from_PNCList(%s)" % (fn.name, canon(c["args"][0]))
            vals = dom.seen.get(id(c), [])
            bad = None
            for v in vals:
                if isinstance(v, AVal) and v.kind == "fin" and v.s and all(isinstance(x, int) for x in v.s):
                    bad = sorted(v.s)
            if bad is not None:
                ctx.fail("R3.slot", fn.name, "del-arg", "del_from_PNCList(%s) can be reached with the argument already overwritten by the "
                         "constant %s: the slot of the id that was handed out keeps pointing at the object freed next, and "
                         "pnc_filelist[%s] is written" % (canon(c["args"][0]), bad, bad[0]), fn=fn, line=c.get("l", 0), inst=inst)
            elif not vals:
                ctx.ok("R3.slot", inst, "unreachable in this build", nontrivial=False)
            else:
                ctx.ok("R3.slot", inst, "the argument still holds the id the table handed out on every path")
    ctx.require(n >= 4, "R3.slot: only %d calls of del_from_PNCList found" % n)


class _OpenDom(ValueDomain):
    """ncmpi_create / ncmpi_open: the driver call fails with a fatal code; was the id slot given back?"""
    def __init__(self, fn, call_id, code):
        ValueDomain.__init__(self, fn)
        self.call_id = call_id
        self.code = code

    def tracked(self, key):
        if isinstance(key, str):
            return True
        if key[0] == "v":
            v = self.fn.vars.get(key[1])
            return v is not None and self.fn.type(v["t"]).get("k") == "int" and v.get("n") in ("err", "status", "mpireturn")
        return False

    def call_value(self, call, st):
        if id(call) == self.call_id:
            return fin(self.code)
        f = call.get("fn") or ""
        if f.startswith(("MPI_", "PMPI_")):
            return ZERO
        return TOP

    def on_call(self, call, st, blk, idx):
        if id(call) == self.call_id:
            st = st.set("$drv", ONE)
        if call.get("fn") == "del_from_PNCList":
            st = st.set("$del", ONE)
        return st

    def on_elem(self, elem, st, blk, idx):
        if elem.get("k") == "ret":
            return st.set("$ret", self.eval(elem.get("e"), st) if elem.get("e") is not None else None)
        return st


def check_failed_open(ctx, prog, fatal_code):
    """when the driver's create / open fails with a fatal error, every path gives the id slot back and returns an error -
    whatever non-fatal condition (an inconsistent mode argument) had been noted in the status before"""
    from callgraph import slot_of_call
    n = 0
    for name, slot in (("ncmpi_create", "create"), ("ncmpi_open", "open")):
        fn = ctx.need_fn(prog, name)
        calls = [c for b, i, e in fn.elements() for c in walk(e) if c.get("k") == "call" and c.get("fn") is None and slot_of_call(c) == slot]
        ctx.require(len(calls) == 1, "%s: expected one driver->%s call, found %d" % (name, slot, len(calls)))
        dom = _OpenDom(fn, id(calls[0]), fatal_code)
        ex = Explorer(fn, dom, max_states=400000)
        try:
            ex.run(State())
        except Budget as e:
            raise AnalysisBroken("R3.slot: %s" % e)
        ctx.states += ex.visited
        ctx.functions_analysed.add((fn.unit.name, fn.name))
        n += 1
        bad = None
        for st, key in ex.exits:
            if not st.has("$drv"):
                continue
            r = st.get("$ret", None)
            if not st.has("$del"):
                bad = bad or ("keeps the id slot (and goes on with a NULL driver object)", key)
            elif not isinstance(r, AVal) or r.may_be_zero():
                bad = bad or ("returns NC_NOERR", key)
        inst = "%s:driver->%s fails" % (name, slot)
        if bad:
            ctx.fail("R3.slot", name, "driver-fail", "when driver->%s fails with a fatal error a path %s: the caller receives an id "
                     "that crashes the next call on it" % (slot, bad[0]), fn=fn, line=calls[0].get("l", 0), inst=inst,
                     detail={"path": ex.describe_path(bad[1])})
        else:
            ctx.ok("R3.slot", inst, "every path gives the slot back and returns the error")
    return n


def check_close(ctx, prog):
    # every function that releases the live file object (ncmpio_free_NC(ncp)): close and abort
    fns = [fn for fn in prog.all_functions()
           if any(strip(c["args"][0]).get("k") == "ref" and strip(c["args"][0]).get("n") == "ncp"
                  for b, i, c in patterns.call_sites(fn, lambda n: n == "ncmpio_free_NC")) and fn.name != "ncmpio_free_NC"
           # ... of a file that was open before the call (the object comes in through the driver's `ncdp` argument; open and
           # create release an object they have just made)
           and any(p["n"] == "ncdp" for p in fn.params)]
    names = sorted(fn.name for fn in fns)
    ctx.require("ncmpio_close" in names and len(fns) >= 2, "expected ncmpio_close and ncmpio_abort to release the file object, found %s" % names)
    for fn in fns:
        frees = patterns.call_sites(fn, lambda n: n == "ncmpio_free_NC")
        ex = Explorer(fn, CloseDom(fn)).run(State())
        ctx.states += ex.visited
        ctx.functions_analysed.add((fn.unit.name, fn.name))
        leak = {}
        silent = None
        for st, key in ex.exits:
            for q in QUEUES:
                if st.has("$leak:" + q):
                    leak.setdefault(q, (st, key))
            if st.has("$pending"):
                r = st.get("$ret")
                if not isinstance(r, AVal) or r.may_be_zero():
                    silent = (st, key)
        for q in QUEUES:
            if q in leak:
                st, key = leak[q]
                ctx.fail("R3.close", fn.name, q, "a path reaches ncmpio_free_NC(ncp) without having tested ncp->%s empty "
                         "or cancelled its requests: pending requests are dropped without ncmpio_cancel (queue memory "
                         "leaked, user buffers left byte-swapped)" % q, fn=fn, line=frees[0][2].get("l", fn.line),
                         detail={"path": ex.describe_path(key)})
            else:
                ctx.ok("R3.close", "%s:%s" % (fn.name, q), "every path to ncmpio_free_NC tests the queue empty or cancels it")
        if silent:
            st, key = silent
            ctx.fail("R3.close", fn.name, "NC_EPENDING", "a path that found pending requests can return NC_NOERR",
                     fn=fn, line=fn.line, detail={"path": ex.describe_path(key), "exit_state": repr(st)})
        else:
            ctx.ok("R3.close", "%s:NC_EPENDING" % fn.name, "paths with pending requests return non-zero")


# Leak reports that are infeasible for a reason outside one function, each with the side condition the checker re-tests.
LEAK_REASONED = {
    ("stride_flatten", "dimlen<-malloc()"):
        ("its only caller returns before the call when the request has no elements, so *nblocks == 0 cannot happen",
         lambda prog: _caller_tests(prog, "stride_flatten", "nelems == 0")),
    ("hdr_get_NC_dim", "name<-hdr_get_NC_name()"):
        ("hdr_get_NC_name leaves *namep allocated on failure only when the refill for the name's padding fails; header "
         "items are 4-byte aligned and the window size is rounded up to X_ALIGN, so the padding never straddles the window",
         lambda prog: _window_aligned(prog)),
    ("hdr_get_NC_attr", "name<-hdr_get_NC_name()"): ("as hdr_get_NC_dim", lambda prog: _window_aligned(prog)),
    ("hdr_get_NC_var", "name<-hdr_get_NC_name()"): ("as hdr_get_NC_dim", lambda prog: _window_aligned(prog)),
    ("write_NC", "buf<-malloc()"):
        ("the only exit that skips the release follows a failing ncmpio_hdr_put_NC; the only non-zero status any function of "
         "the encoder's call tree assigns or returns is NC_EINTOVERFLOW (a count, length or size that does not fit the format's "
         "word; the primitives ncmpix_put_uint32/uint64/putn_text return NC_NOERR on every path), and such values are refused "
         "when they are defined (def_dim, put_att, def_var and the record-index check of put: tried, record 2^32 of a CDF-2 "
         "file is NC_EINVALCOORDS), so no header that reaches enddef makes the encoder fail",
         lambda prog: _encoder_total(prog)),
}
# functions over the release analysis' state budget (see C19): assumed to capture their arguments, not reported on
LEAK_BUDGET_SKIPS = {"extract_reqs", "get_varm", "igetput_varn", "intra_node_aggregation", "mgetput", "ncmpi_open", "ncmpio__enddef",
                     "ncmpio_cancel", "ncmpio_igetput_varm", "ncmpio_inq_misc", "ncmpio_put_att", "ncmpio_set_pnetcdf_hints", "put_varm",
                     "req_aggregation", "req_commit", "utf8proc_normalize_utf32"}


def _encoder_total(prog):
    """the only non-zero constant a function reachable from ncmpio_hdr_put_NC assigns to a status variable or returns is
    NC_EINTOVERFLOW"""
    allowed = set()
    for u in prog.units.values():
        if "NC_EINTOVERFLOW" in u.macros:
            try:
                allowed.add(int(u.macros["NC_EINTOVERFLOW"].strip("() "), 0))
            except ValueError:
                pass
            break
    if not allowed:
        return False
    from callgraph import CallGraph
    cg = CallGraph(prog)
    # the callees whose result is consulted (assigned or returned), transitively
    tree, todo = set(), ["ncmpio_hdr_put_NC"]
    while todo:
        n = todo.pop()
        if n in tree:
            continue
        tree.add(n)
        for fn in prog.fns(n):
            for b, i, e in fn.elements():
                s_ = strip(e)
                if isinstance(s_, dict) and s_.get("k") in ("asg", "ret"):
                    r = strip_pre(s_.get("b") if s_.get("k") == "asg" else s_.get("e"))
                    if isinstance(r, dict) and r.get("k") == "call" and r.get("fn"):
                        todo.append(r["fn"])
    if len(tree) < 8:
        return False
    for fn in prog.all_functions():
        if fn.name not in tree:
            continue
        for b, i, e in fn.elements():
            s_ = strip(e)
            if not isinstance(s_, dict):
                continue
            if s_.get("k") == "ret" and s_.get("e") is not None:
                v = const_value(s_["e"])
                if v is not None and v != 0 and v not in allowed and fn.type(fn.ret).get("k") in ("int", "enum"):
                    return False
            if s_.get("k") == "asg" and canon(s_["a"]) in ("err", "status"):
                v = const_value(s_["b"])
                if v is not None and v != 0 and v not in allowed:
                    return False
    return True


def _caller_tests(prog, callee, text):
    from callgraph import CallGraph
    import cfg as _cfg
    cg = CallGraph(prog)
    sites = cg.callers.get(callee, [])
    if len(sites) != 1:
        return False
    fn, b, i, call = sites[0]
    for d in _cfg.dominators(fn).get(b.id, ()):
        c = fn.blocks[d].cond
        if c is not None and text in canon(c):
            return True
    return False


def _window_aligned(prog):
    fn = prog.fns("ncmpio_hdr_get_NC")
    if not fn:
        return False
    for b, i, e in fn[0].elements():
        if e.get("k") == "asg" and canon(e["a"]).endswith(".chunk"):
            # PNETCDF_RNDUP(x, X_ALIGN) expands to ((x + 3) / 4) * 4
            t = show(e["b"])
            return "PNETCDF_RNDUP" in t or ("/ 4" in canon(e["b"]) and "* 4" in canon(e["b"]))
    return False


def check_emptyfree(ctx, prog):
    """a container that releases its storage when its element count reaches zero tests the count AFTER the removal:
    a `count == 0 -> free` test that can only run before the decrement of that count never sees the emptied state"""
    import cfg as _cfg
    n = 0
    for fn in prog.all_functions():
        decs = {}
        for b, i, e in fn.elements():
            for x in walk(e):
                if x.get("k") == "un" and "--" in x.get("op", "") and strip(x["e"]).get("k") in ("mem", "idx"):
                    decs.setdefault(canon(x["e"]), []).append(b.id)
                if x.get("k") == "asg" and x.get("op") == "-=" and strip(x["a"]).get("k") == "mem":
                    decs.setdefault(canon(x["a"]), []).append(b.id)
        if not decs:
            continue
        for bid, blk in fn.blocks.items():
            c = strip_pre(blk.cond) if blk.cond is not None else None
            if not (isinstance(c, dict) and c.get("k") == "bin" and c.get("op") in ("==", "<=") and const_value(c["b"]) == 0
                    and canon(c["a"]) in decs and len(blk.succs) == 2 and blk.succs[0] is not None):
                continue
            frees = [cc for e in fn.blocks[blk.succs[0]].elems for cc in walk(e)
                     if cc.get("k") == "call" and (cc.get("fn") or "") in ("free", "NCI_Free_fn", "NCI_Free")]
            if not frees:
                continue
            n += 1
            L = canon(c["a"])
            inst = "%s:%s" % (fn.name, L)
            late = [d for d in decs[L] if d != bid and _cfg.can_reach(fn, bid, d) and not _cfg.can_reach(fn, d, bid)]
            if late:
                ctx.fail("R3.emptyfree", fn.name, L, "`%s == 0` guards the release of the container's storage but is evaluated before "
                         "`%s` is decremented: when the last element is removed the test still sees 1, the storage is kept "
                         "and is not released at close either (empty containers are skipped there)" % (L, L), fn=fn,
                         line=blk.tl or fn.line, inst=inst)
            else:
                ctx.ok("R3.emptyfree", inst, "the emptiness test follows the decrement")
    ctx.require(n >= 4, "R3.emptyfree: only %d release-on-empty tests found" % n)


# destructors that guard the release of a field by something other than that field: (function, field text) -> (guard, reason)
DESTRUCTOR_GUARDS = {
    ("ncmpio_hash_table_free", "nameT[i].list"):
        ("nameT[i].num > 0", "the bucket list is released whenever its count drops to 0 (R3.emptyfree decides that), so count > 0 "
                             "is exactly 'list allocated'"),
}


def controlling_conditions(fn, bid):
    """branch blocks the block is control-dependent on (asserts, whose failing side does not return, excluded)"""
    pd = cfg.postdominators(fn)
    out = []
    for d, blk in fn.blocks.items():
        if blk.cond is None or len(blk.succs) != 2 or d == bid:
            continue
        if bid in pd.get(d, set()):
            continue
        succs = [s_ for s_ in blk.succs if s_ is not None]
        if any(fn.blocks[s_].noreturn for s_ in succs):
            continue
        if any(s_ == bid or bid in pd.get(s_, set()) for s_ in succs):
            out.append(blk)
    return out


def check_destructors(ctx, prog):
    """a destructor (a function whose name says `free` and that releases fields of its argument) releases each field
    under no condition other than that field's (or its owner's) own NULL test or the loop that walks the container.
    A guard on some other field (`nelems > 0`) silently keeps the memory whenever the two disagree."""
    import re
    n = 0
    for fn in prog.all_functions():
        if not re.search(r"(^|_)free(_|$)", fn.name) or fn.name in ("NCI_Free_fn",) or fn.relfile().endswith("mem_alloc.c"):
            continue
        for b, i, c in patterns.call_sites(fn, lambda nm: nm in ("NCI_Free_fn", "free")):
            a = strip(c["args"][0])
            while isinstance(a, dict) and a.get("k") == "cast":
                a = strip(a["e"])
            if not isinstance(a, dict) or a.get("k") != "mem":
                continue
            n += 1
            ctx.functions_analysed.add((fn.unit.name, fn.name))
            own = canon(a)
            # the field itself and every owner prefix: a->b[i]->c  ->  a->b[i], a->b, a
            prefixes = {own}
            x = a
            while isinstance(x, dict) and x.get("k") in ("mem", "idx", "un"):
                x = strip(x.get("b") if x.get("k") in ("mem", "idx") else x.get("e"))
                if isinstance(x, dict):
                    prefixes.add(canon(x))
            inst = "%s:free(%s)" % (fn.name, own)
            bad = None
            for blk in controlling_conditions(fn, b.id):
                if blk.term in ("for", "while", "do"):
                    continue
                ct = canon(blk.cond)
                cc = strip_pre(blk.cond)
                cc = strip(cc) if isinstance(cc, dict) else cc
                tested = None       # the expression whose NULL-ness the condition tests
                if isinstance(cc, dict) and cc.get("k") == "bin" and cc.get("op") in ("==", "!="):
                    if const_value(cc["b"]) == 0:
                        tested = canon(cc["a"])
                    elif const_value(cc["a"]) == 0:
                        tested = canon(cc["b"])
                elif isinstance(cc, dict) and cc.get("k") == "un" and cc.get("op") == "!":
                    tested = canon(cc["e"])
                elif isinstance(cc, dict) and cc.get("k") in ("mem", "ref", "idx"):
                    tested = canon(cc)
                if tested in prefixes:
                    continue
                exc = DESTRUCTOR_GUARDS.get((fn.name, own))
                if exc and exc[0] == ct:
                    continue
                bad = ct
            if bad:
                ctx.fail("R3.destructor", fn.name, "free(%s)" % own, "`%s` is released only when `%s`: the condition is not about the "
                         "pointer being released, so an object for which the two disagree keeps its memory after the last close"
                         % (own, bad[:60]), fn=fn, line=c.get("l", 0), inst=inst)
            else:
                ctx.ok("R3.destructor", inst, "released unconditionally or under its own NULL test", nontrivial=False)
    ctx.require(n >= 15, "R3.destructor: only %d field releases in destructors found" % n)


def check_leaks(ctx, prog):
    from rules import r3leak
    from callgraph import CallGraph
    ctx.rule("R3.leak", "every heap object allocated in a function is released, returned or stored on every path (allocation and "
             "MPI calls assumed to succeed), for the functions reachable from the public API")
    cg = CallGraph(prog)
    roots = [fn.name for fn in prog.all_functions() if fn.name.startswith("ncmpi_") and not fn.static]
    reach = cg.reach(roots)
    ctx.require(len(roots) >= 500 and len(reach) >= 900, "R3.leak: API roots / reachable functions: %d / %d" % (len(roots), len(reach)))
    sub = _Sub(ctx)
    n, summaries, skipped, extra = r3leak.check(sub, prog, "R3.leak", lambda fn: fn.name in reach, budget=32000,
                                                  known_skips=LEAK_BUDGET_SKIPS)
    ctx.require(not extra, "R3.leak: %s exceed(s) the state budget and would be silently excluded" % ", ".join(extra))
    ctx.require(n >= 80, "R3.leak: only %d allocating functions analysed" % n)
    for f in sub.held:
        key = (f["function"], f["site"])
        if key in LEAK_REASONED:
            why, cond = LEAK_REASONED[key]
            if cond(prog):
                ctx.ok("R3.leak", "%s:%s" % key, "reasoned: " + why, nontrivial=False)
                continue
        ctx.fail("R3.leak", f["function"], f["site"], f["what"], fn=f["fn"], line=f["line"], inst=f["inst"], detail=f["detail"])


class _Sub:
    """collects the leak reports so that the reasoned ones can be filtered; everything else is forwarded"""
    def __init__(self, ctx):
        self.ctx = ctx
        self.held = []

    def __getattr__(self, a):
        return getattr(self.ctx, a)

    def fail(self, rule, function, site, what, fn=None, line=0, detail=None, inst=None):
        self.held.append({"function": function, "site": site, "what": what, "fn": fn, "line": line, "detail": detail, "inst": inst})


def run(ctx):
    ctx.rule("R3.id.contract", "PNC_check_id returns NC_NOERR only with *pncp loaded from a slot tested non-NULL")
    ctx.rule("R3.id.use", "callers use the PNC pointer only after testing PNC_check_id's result == NC_NOERR")
    ctx.rule("R3.slot", "id table: NC_ENFILE test dominates a scan over the whole table; store/count/id paired; "
             "delete clears and decrements")
    ctx.rule("R3.close", "ncmpio_close: queues tested empty or cancelled before ncmpio_free_NC; pending => non-zero")
    ctx.assume("single-threaded build (ENABLE_THREAD_SAFE off in the pinned configuration)")
    prog = ctx.program(groups=["lib"])
    check_contract(ctx, prog)
    check_uses(ctx, prog)
    check_slot(ctx, prog)
    check_slot_arg(ctx, prog)
    check_failed_open(ctx, prog, -35)        # NC_EEXIST: any code that is not one of the non-fatal ones
    check_close(ctx, prog)
    from rules import r3mpitype, r3siblings
    from callgraph import CallGraph as _CG
    ctx.rule("R3.mpitype", "an MPI datatype created into a local is released, handed on or stored on every path (MPI calls and "
             "allocations assumed to succeed), for the functions reachable from the public API")
    _cg = _CG(prog)
    _reach = _cg.reach([fn.name for fn in prog.all_functions() if fn.name.startswith("ncmpi_") and not fn.static])
    r3mpitype.check(ctx, prog, "R3.mpitype", min_functions=12, scope=lambda fn: fn.name in _reach)
    ctx.rule("R3.siblings", "every site that releases an object held in a longer-lived structure releases the owned parts its "
             "sibling sites release")
    r3siblings.check(ctx, prog, "R3.siblings", min_sites=12)
    ctx.rule("R3.destructor", "destructors release each field unconditionally or under that field's own NULL test")
    check_destructors(ctx, prog)
    ctx.rule("R3.emptyfree", "release-on-empty tests observe the count after the removal")
    check_emptyfree(ctx, prog)
    check_leaks(ctx, prog)
