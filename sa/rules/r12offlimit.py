"""R12.offlimit — a file offset is not refused for exceeding 2^31-1 unless the code really puts it into 32 bits.

PnetCDF addresses files with 64-bit offsets on every platform the build supports (MPI_Offset and, here, MPI_Aint are
64-bit).  A test `off > NC_MAX_INT` whose taken side raises NC_EINTOVERFLOW is legitimate only as the range test of a
narrowing: the function afterwards converts that very value to a type of at most 32 bits (a cast, or the CDF-1 header
word).  Without the narrowing the test is a spurious 2 GiB limit: requests that start beyond 2^31 bytes are refused
although nothing would overflow."""
import cfg
from facts import walk, strip, canon, const_value, macro_of
from frontend import AnalysisBroken

OFFSETISH = ("offset", "begin", "disp")


def check(ctx, prog, rule, min_sites, err_value):
    n = 0
    for fn in prog.all_functions():
        for bid, blk in fn.blocks.items():
            c = strip(blk.cond) if blk.cond is not None else None
            if not (isinstance(c, dict) and c.get("k") == "bin" and c.get("op") in (">", ">=") and len(blk.succs) == 2):
                continue
            if macro_of(c["b"]) != "NC_MAX_INT" and const_value(c["b"]) != 2147483647:
                continue
            a = strip(c["a"])
            t = fn.type(a.get("t")) if isinstance(a, dict) and a.get("t") is not None else {}
            txt = canon(a)
            if t.get("bits") != 64 or not any(w in txt.lower() for w in OFFSETISH):
                continue
            # the taken side raises the overflow error
            tb = blk.succs[0]
            raises = False
            if tb is not None:
                for e in fn.blocks[tb].elems:
                    s = strip(e)
                    if isinstance(s, dict) and s.get("k") in ("asg", "ret"):
                        v = const_value(s.get("b") if s.get("k") == "asg" else s.get("e"))
                        if v == err_value:
                            raises = True
            if not raises:
                continue
            n += 1
            inst = "%s:%s > NC_MAX_INT@%s" % (fn.name, txt, blk.tl)
            ctx.functions_analysed.add((fn.unit.name, fn.name))
            narrowed = False
            for b2, i2, e2 in fn.elements():
                for x in walk(e2, into_pre=True):
                    if isinstance(x, dict) and x.get("k") == "cast" and canon(strip(x["e"])) == txt:
                        tt = fn.type(x.get("t")) if x.get("t") is not None else {}
                        if tt.get("bits") is not None and tt["bits"] <= 32:
                            narrowed = True
                    if isinstance(x, dict) and x.get("k") == "asg" and canon(strip(x["b"])) == txt:
                        lt = fn.type(strip(x["a"]).get("t")) if strip(x["a"]).get("t") is not None else {}
                        if lt.get("bits") is not None and lt["bits"] <= 32:
                            narrowed = True
                    if isinstance(x, dict) and x.get("k") == "call" and (x.get("fn") or "").startswith(("ncmpix_put_uint32", "ncmpix_put_int32")):
                        if any(txt in canon(a2) for a2 in x.get("args", [])):
                            narrowed = True
            if narrowed:
                ctx.ok(rule, inst, "range test of a narrowing of the same value")
            else:
                ctx.fail(rule, fn.name, "%s > NC_MAX_INT" % txt, "the 64-bit file offset `%s` is refused with NC_EINTOVERFLOW when it exceeds "
                         "2^31-1, but the function never puts it into 32 bits: a spurious 2 GiB limit on where a request may start" % txt,
                         fn=fn, line=blk.tl or fn.line, inst=inst)
    if n < min_sites:
        raise AnalysisBroken("%s: only %d offset range tests found" % (rule, n))
    return n
