"""R12 — no unguarded 64 -> 32 bit narrowing in offset arithmetic."""
import cfg
from facts import walk, strip, strip_pre, canon, show, const_value

GEO = ["ncmpio_first_offset", "ncmpio_last_offset", "ncmpio_filetype_create_vars", "calculate_access_range",
       "vars_flatten", "merge_requests", "NC_begins", "ncmpio_NC_check_vlen", "ncmpio_NC_check_vlens",
       "ncmpio_NC_var_shape64", "move_file_block", "move_record_vars", "move_fixed_vars",
       "off_compare", "is_request_contiguous", "stride_flatten",
       "type_create_subarray64", "type_create_subarray", "filetype_create_vara", "construct_filetypes",
       "construct_buffertypes", "req_aggregation", "mgetput", "wait_getput", "ncmpio_file_set_view",
       "ncmpio_NC_check_voffs", "compute_var_shape", "fill_var_rec", "fillerup_aggregate", "ncmpio_read_write",
       "ncmpio_write_numrecs"]
# not covered: the intra-node aggregation layer (flatten_subarray / intra_node_aggregation keep segment lengths
# in int arrays when MPI large-count support is absent; whether an earlier guard bounds them was not established)

# (function, operand) -> reason: operands that are bounded for a reason the guard search cannot see
REASONED = {
    ("ncmpio_read_write", "buf_count@MPI_Unpack"): "reached only when a temporary contiguous buffer was allocated "
                                                   "(xbuf != buf), which happens in the branch where buf_count <= NC_MAX_INT",
    ("type_create_subarray64", "array_of_subsizes[i]"): "sub-sizes never exceed the sizes, which the big_int scan bounds",
    ("move_file_block", "chunk_size"): "chunk_size is clamped to MOVE_UNIT (64 MiB) a few lines above",
    ("move_file_block", "nbytes % chunk_size"): "remainder of a division by chunk_size <= MOVE_UNIT",
    ("ncmpio_file_set_view", "ncp->begin_var"): "only used as an int block length of the root's header view when "
                                               "begin_var <= NC_MAX_INT is tested in the same condition",
}


def narrowings(fn):
    out = []
    for b, i, e in fn.elements():
        for x in walk(e):
            if x.get("k") == "cast" and x.get("ck") == "IntegralCast" and "cv" not in x:
                ft, tt = fn.type(x.get("ft")), fn.type(x.get("t"))
                if ft.get("bits", 0) == 64 and ft.get("k") in ("int", "uint") and tt.get("bits", 64) <= 32 \
                        and tt.get("k") in ("int", "uint"):
                    out.append((b, i, e, x))
    return out


def guarded(fn, b, i, e, x):
    t = canon(x["e"])
    # (0) a remainder by a value of at most 32 bits is below 2^31 in magnitude
    inner = strip(x["e"])
    if isinstance(inner, dict) and inner.get("k") == "bin" and inner.get("op") == "%":
        d = inner["b"]
        while isinstance(d, dict) and d.get("k") == "paren":
            d = d.get("e")
        if isinstance(d, dict) and d.get("k") == "cast" and fn.type(d.get("ft")).get("bits", 64) <= 32 \
                and fn.type(d.get("ft")).get("k") in ("int", "uint"):
            return "remainder of a division by a 32-bit value"
    # (a) the cast is itself part of a round-trip test  T != (int)T
    for y in walk(e, into_pre=True):
        if y.get("k") == "bin" and y.get("op") in ("!=", "==") and any(z is x for z in walk(y, into_pre=True)):
            other = y["a"] if any(z is x for z in walk(y["b"], into_pre=True)) else y["b"]
            if canon(other) == t:
                return "round-trip test"
    # (b) a dominating branch bounds T (right edge) by a 32-bit limit or by a round-trip test
    import patterns
    doms = cfg.dominators(fn).get(b.id, set())

    def side(d):
        blk = fn.blocks[d]
        if len(blk.succs) != 2 or blk.succs[0] is None or blk.succs[1] is None:
            return None
        t_, f_ = blk.succs
        in_t = b.id == t_ or b.id in patterns.region(fn, t_, {f_})
        in_f = b.id == f_ or b.id in patterns.region(fn, f_, {t_})
        if in_t and not in_f:
            return True
        if in_f and not in_t:
            return False
        return None
    for d in doms:
        c = fn.blocks[d].cond
        if c is None or d == b.id and False:
            continue
        sd = side(d)
        for y in walk(c, into_pre=True):
            if y.get("k") == "bin" and y.get("op") in (">", ">=", "<", "<=", "!=", "=="):
                ta, tb = canon(y["a"]), canon(y["b"])
                if t in (ta, tb):
                    other = y["b"] if ta == t else y["a"]
                    op = y["op"] if ta == t else {"<": ">", ">": "<", "<=": ">=", ">=": "<="}.get(y["op"], y["op"])
                    ov = const_value(other)
                    upper = (op in (">", ">=") and sd is False) or (op in ("<", "<=") and sd is True)
                    if ov is not None and 65535 < ov <= 2147483648 and (upper or sd is None and fn.blocks[d].term in ("land", "lor")):
                        return "bounded by %s" % canon(other)
                    if any(z.get("k") == "cast" and canon(z.get("e")) == t for z in walk(other, into_pre=True)):
                        if (op == "!=" and sd is False) or (op == "==" and sd is True) or sd is None:
                            return "round-trip test"
        # (d) a flag computed from NC_MAX_INT tests on the same array
        cc = strip_pre(c)
        flag = None
        want = None
        if isinstance(cc, dict) and cc.get("k") == "ref":
            flag, want = cc["n"], False
        elif isinstance(cc, dict) and cc.get("k") == "bin" and cc.get("op") == "==" and const_value(cc["b"]) == 0 \
                and strip(cc["a"]).get("k") == "ref":
            flag, want = strip(cc["a"])["n"], True
        elif isinstance(cc, dict) and cc.get("k") == "un" and cc.get("op") == "!" and strip(cc["e"]).get("k") == "ref":
            flag, want = strip(cc["e"])["n"], True
        if flag and sd is want:
            base = t.split("[")[0]
            for b2, i2, e2 in fn.elements():
                if e2.get("k") == "asg" and canon(e2["a"]) == flag and const_value(e2["b"]) == 1:
                    for d2 in cfg.dominators(fn).get(b2.id, ()):
                        c2 = fn.blocks[d2].cond
                        if c2 is not None and ("NC_MAX_INT" in canon(c2) or "2147483647" in canon(c2)):
                            return "flag `%s` is raised by an NC_MAX_INT test and is clear here" % flag
    # (e) narrow-then-check: `int n = (int)T; if (T > NC_MAX_INT) { n = 0 | return }` right after
    for d2, blk2 in fn.blocks.items():
        c2 = blk2.cond
        if c2 is None or b.id not in cfg.dominators(fn).get(d2, ()):
            continue
        for y in walk(c2, into_pre=True):
            if y.get("k") == "bin" and y.get("op") in (">", ">=") and canon(y["a"]) == t:
                ov = const_value(y["b"])
                if ov is not None and 65535 < ov <= 2147483648:
                    return "checked right after against %s" % canon(y["b"])
    # (c) a MIN(T, limit) clamp in the same expression
    for y in walk(e, into_pre=True):
        if y.get("k") == "cond":
            txt = canon(y)
            if "NC_MAX_INT" in txt or "2147483647" in txt:
                if any(z is x for z in walk(y, into_pre=True)) or canon(x["e"]) == txt:
                    return "clamped to NC_MAX_INT"
    if x["e"].get("k") == "cond" or (strip_pre(x["e"]) or {}).get("k") == "cond":
        txt = canon(x["e"])
        if "NC_MAX_INT" in txt or "2147483647" in txt:
            return "clamped to NC_MAX_INT"
    return None


def run_r12(ctx, prog, rule="R12.narrow"):
    seen_fns = 0
    for name in GEO:
        for fn in prog.fns(name):
            seen_fns += 1
            ctx.functions_analysed.add((fn.unit.name, fn.name))
            per = {}
            for b, i, e, x in narrowings(fn):
                t = canon(x["e"])
                k = per.setdefault(t, 0) + 1
                per[t] = k
                inst = "%s:(%s)%s#%d" % (fn.name, fn.type(x.get("t"))["s"], t[:40], k)
                why = guarded(fn, b, i, e, x)
                encl = None
                for y in walk(e):
                    if y.get("k") == "call" and any(strip(a) is x or a is x for a in y.get("args", [])):
                        encl = y.get("fn")
                key2 = (fn.name, "%s@%s" % (t, encl)) if encl else None
                if why:
                    ctx.ok(rule, inst, why)
                elif (fn.name, t) in REASONED:
                    ctx.ok(rule, inst, "reasoned: " + REASONED[(fn.name, t)], nontrivial=False)
                elif key2 in REASONED:
                    ctx.ok(rule, inst, "reasoned: " + REASONED[key2], nontrivial=False)
                else:
                    ctx.fail(rule, fn.name, t[:60], "the %d-bit value `%s` is converted to %s without a preceding range "
                             "test: offsets / sizes beyond 2^31 are silently truncated" %
                             (fn.type(x.get("ft")).get("bits"), t, fn.type(x.get("t"))["s"]), fn=fn,
                             line=x.get("l", fn.line), inst=inst)
            if not per:
                ctx.ok(rule, fn.name, "no 64->32 bit conversion", nontrivial=False)
    ctx.require(seen_fns >= 25, "R12: only %d of the geometry functions were found" % seen_fns)
