"""R3.mpitype — an MPI datatype created into a local variable is, on every path to the function's exit, released
(MPI_Type_free(&t)), handed to a callee that releases it, stored into a longer-lived object, or known to be
MPI_DATATYPE_NULL.  C17: "when the last file is closed the library holds no ... MPI datatypes ... of its own, whatever
mixture of successful and failing calls preceded".

A typestate over the function's local MPI_Datatype variables only (state per variable: live or not), so that even the
largest functions stay far below the state budget.  Creator calls that report failure through their return value
(ncmpii_create_imaptype, ncmpio_filetype_create_vars, ...) are split into a success outcome (variable live) and a
failure outcome (variable untouched); plain MPI constructors are assumed to succeed.  Tests against MPI_DATATYPE_NULL
refine the state.  A variable whose creator may legitimately produce MPI_DATATYPE_NULL is still reported when a path
leaves without any test or release: some input makes it live on that path."""
from absint import ValueDomain, Explorer, State, AVal, fin, TOP, Budget, ZERO, NONZERO, ONE
from facts import walk, strip, strip_pre, canon, const_value, lvalue_key, show
from frontend import AnalysisBroken
import patterns
from rules import r3free

MPI_NEW = {"MPI_Type_contiguous": 2, "MPI_Type_vector": 4, "MPI_Type_create_hvector": 4, "MPI_Type_indexed": 4,
           "MPI_Type_create_hindexed": 4, "MPI_Type_create_struct": 4, "MPI_Type_create_subarray": 6, "MPI_Type_create_resized": 3,
           "MPI_Type_dup": 1, "MPI_Type_create_indexed_block": 4, "MPI_Type_create_hindexed_block": 4, "MPI_Type_hvector": 4,
           "MPI_Type_hindexed": 4, "MPI_Type_struct": 4}


def is_dtype(fn, t):
    ty = fn.type(t) if t is not None else {}
    return "MPI_Datatype" in (ty.get("s") or "") and ty.get("k") == "ptr" and "*" not in (ty.get("s") or "").replace("MPI_Datatype", "")


def library_creators(prog):
    """functions that hand a *created* MPI datatype out through an `MPI_Datatype *` parameter: name -> (index, True).
    Created means: the parameter itself is the out-argument of an MPI constructor (or of a creator found earlier), or
    `*param = t` with t a local that is such an out-argument in the same function.  Computed to a fixpoint."""
    out = {}
    changed = True
    while changed:
        changed = False
        for fn in prog.all_functions():
            for k, p in enumerate(fn.params):
                ty = fn.type(p["t"])
                if (ty.get("s") or "").replace("const ", "").strip() != "MPI_Datatype *":
                    continue
                made_locals = set()
                direct = False
                for b, i, e in fn.elements():
                    for c in walk(e):
                        if c.get("k") != "call":
                            continue
                        f = c.get("fn")
                        idxs = {MPI_NEW[f]} if f in MPI_NEW else out.get(f, set())
                        for idx in idxs:
                            if idx >= len(c.get("args", [])):
                                continue
                            a = strip(c["args"][idx])
                            if canon(a) == p["n"]:
                                direct = True
                            if isinstance(a, dict) and a.get("k") == "un" and a.get("op") == "&" and strip(a["e"]).get("k") == "ref":
                                made_locals.add(strip(a["e"])["n"])
                via = False
                for b, i, e in fn.elements():
                    for c in walk(e):
                        if c.get("k") == "asg" and canon(c["a"]) == "*" + p["n"]:
                            r = strip(c["b"])
                            if isinstance(r, dict) and r.get("k") == "ref" and r.get("n") in made_locals:
                                via = True
                if (direct or via) and k not in out.get(fn.name, set()):
                    out.setdefault(fn.name, set()).add(k)
                    changed = True
    return out


def releasers(prog):
    """functions that call MPI_Type_free(&param) on a by-value MPI_Datatype parameter: name -> set(param index)"""
    out = {}
    for fn in prog.all_functions():
        pn = {p["n"]: k for k, p in enumerate(fn.params) if is_dtype(fn, p["t"])}
        if not pn:
            continue
        for b, i, c in patterns.call_sites(fn, lambda n: n == "MPI_Type_free"):
            a = strip(c["args"][0])
            if a.get("k") == "un" and a.get("op") == "&" and canon(a["e"]) in pn:
                out.setdefault(fn.name, set()).add(pn[canon(a["e"])])
    return out


class TypeDom(ValueDomain):
    assume_mpi_ok = True
    # correlated tests of the same local / parameter (`varp != NULL` twice) go the same way: r3free's branch memo
    MEMO = True
    _pure = staticmethod(r3free.FreeDom._pure)

    def _norm(self, c):
        txt, flip = r3free.FreeDom._norm(c)
        for n in self.counters:
            if txt == "%s > 0" % n:
                return "%s != 0" % n, flip
            if txt == "%s < 1" % n:
                return "%s != 0" % n, not flip
        return txt, flip

    def _keys_of(self, c):
        """only tests of the variables that guard a creation site are remembered (the memo multiplies states)"""
        ks = r3free.FreeDom._keys_of(c)
        for k in ks:
            if k[0] != "v" or k not in self.guard_keys:
                return ()
        return ks
    branch = r3free.FreeDom.branch
    _drop_memo = r3free.FreeDom._drop_memo

    def __init__(self, fn, creators, rel, nofail=None):
        ValueDomain.__init__(self, fn)
        self.creators = creators
        self.rel = rel
        self.nofail = nofail or (lambda name: False)
        # pointer locals that receive an allocator's result: allocation is assumed to succeed, so their NULL tests prune
        self.alloc_ptrs = set()
        self.counters = set()
        assigned = {}
        for b, i, e in fn.elements():
            for x in walk(e):
                if x.get("k") == "asg":
                    l = strip(x["a"])
                    if l.get("k") == "ref" and l.get("dk") == "local":
                        r = strip(x["b"])
                        while isinstance(r, dict) and r.get("k") == "cast":
                            r = strip(r["e"])
                        if isinstance(r, dict) and r.get("k") == "call" and r.get("fn") in r3free.ALLOC_FNS:
                            self.alloc_ptrs.add(l["id"])
                        cv = const_value(x["b"])
                        ok = (x.get("op") == "=" and cv is not None and cv >= 0) or (x.get("op") == "+=" and cv is not None and cv >= 0)
                        assigned.setdefault((l["id"], l["n"]), []).append(ok)
                if x.get("k") == "un" and x.get("op") in ("post++", "pre++"):
                    t = strip(x["e"])
                    if t.get("k") == "ref" and t.get("dk") == "local":
                        assigned.setdefault((t["id"], t["n"]), []).append(True)
                if x.get("k") == "un" and x.get("op") in ("post--", "pre--"):
                    t = strip(x["e"])
                    if t.get("k") == "ref":
                        assigned.setdefault((t.get("id"), t["n"]), []).append(False)
                if x.get("k") == "un" and x.get("op") == "&":
                    t = strip(x["e"])
                    if t.get("k") == "ref":
                        assigned.setdefault((t.get("id"), t["n"]), []).append(False)
        for e in [e for b, i, e in fn.elements() if e.get("k") == "decl"]:
            for v in e.get("vars", []):
                if v.get("init") is not None:
                    cv = const_value(v["init"])
                    assigned.setdefault((v.get("id"), v["n"]), []).append(cv is not None and cv >= 0)
        # counters: int locals only ever set to a non-negative constant or incremented: `k > 0` is `k != 0`
        self.counters = {n for (vid, n), oks in assigned.items() if oks and all(oks)}
        self.locals = {}
        for vid, v in fn.vars.items():
            if v.get("dk", "local") in ("local",) and is_dtype(fn, v.get("t")):
                self.locals[v["n"]] = vid
        self.created_at = {}
        # variables tested by the conditions a creation site is nested in: `if (varp != NULL) create(&t)`
        import cfg as _cfg
        self.guard_keys = set()
        for b, i, c in patterns.call_sites(fn, lambda n: n in MPI_NEW or n in creators):
            for d in _cfg.dominators(fn).get(b.id, set()):
                cond = fn.blocks[d].cond
                if cond is not None and d != b.id and b.id not in _cfg.postdominators(fn).get(d, set()):
                    for k in r3free.FreeDom._keys_of(cond):
                        if k[0] == "v":
                            self.guard_keys.add(k)

    def tracked(self, key):
        if isinstance(key, str):
            return True
        if key[0] == "v":
            v = self.fn.vars.get(key[1])
            # status words: MPI / netCDF return codes held in int locals decide which exits are failure exits
            if v is not None and key[1] in self.alloc_ptrs:
                return True
            return v is not None and self.fn.type(v["t"]).get("k") == "int" and self.fn.type(v["t"]).get("bits", 0) <= 32 \
                and v.get("n") in ("mpireturn", "err", "status", "mpierr")
        return False

    def tkey(self, name):
        return "$T:" + name

    def call_value(self, call, st):
        rv = st.get("$rv", None)
        if isinstance(rv, tuple) and rv[0] == id(call):
            return ZERO if rv[1] == 0 else NONZERO
        f = call.get("fn") or ""
        if f.startswith(("MPI_", "PMPI_")):
            return ZERO
        if f in r3free.ALLOC_FNS:
            return NONZERO
        if self.nofail(f):
            return ZERO
        return TOP

    def local_of_addr(self, a):
        a = strip(a)
        if isinstance(a, dict) and a.get("k") == "un" and a.get("op") == "&":
            e = strip(a["e"])
            if isinstance(e, dict) and e.get("k") == "ref" and e.get("n") in self.locals and e.get("id") == self.locals[e["n"]]:
                return e["n"]
        return None

    def local_of_val(self, a):
        e = strip(a)
        while isinstance(e, dict) and e.get("k") == "cast":
            e = strip(e["e"])
        if isinstance(e, dict) and e.get("k") == "ref" and e.get("n") in self.locals and e.get("id") == self.locals[e["n"]]:
            return e["n"]
        return None

    def on_elem(self, elem, st, blk, idx):
        if elem.get("k") == "ret":
            return st
        if elem.get("k") == "call":
            f = elem.get("fn")
            args = elem.get("args", [])
            if f in self.creators:
                names = [self.local_of_addr(args[k]) for k in sorted(self.creators[f]) if k < len(args)]
                names = [n for n in names if n is not None]
                if names:
                    ok = st.set("$rv", (id(elem), 0))
                    for n in names:
                        self.created_at.setdefault(n, elem.get("l", 0))
                        ok = ok.set(self.tkey(n), ONE)
                    bad = st.set("$rv", (id(elem), 1))
                    return [ok, bad]
        return st

    def on_call(self, call, st, blk, idx):
        f = call.get("fn")
        args = call.get("args", [])
        if f in MPI_NEW and MPI_NEW[f] < len(args):
            n = self.local_of_addr(args[MPI_NEW[f]])
            if n is not None:
                self.created_at.setdefault(n, call.get("l", 0))
                st = st.set(self.tkey(n), ONE)
            return st
        if f == "MPI_Type_free" and args:
            n = self.local_of_addr(args[0])
            if n is not None:
                st = st.set(self.tkey(n), None)
            return st
        if f in ("MPI_Type_commit", "MPI_Type_size", "MPI_Type_get_extent", "MPI_Type_get_true_extent", "MPI_Type_size_x",
                 "MPI_Type_get_envelope", "MPI_Type_get_contents"):
            return st
        # a callee that releases the by-value argument, or any callee given the variable's address: consumed
        for k, a in enumerate(args):
            n = self.local_of_val(a)
            if n is not None and f in self.rel and k in self.rel[f]:
                st = st.set(self.tkey(n), None)
            n2 = self.local_of_addr(a)
            if n2 is not None and f not in self.creators:
                st = st.set(self.tkey(n2), None)
        return st

    def on_assign(self, key, lhs, rhs, val, st, elem):
        if key is not None:
            st = self._drop_memo(st, key)
        if rhs is not None:
            n = self.local_of_val(rhs)
            if n is not None:
                l = strip(lhs) if lhs is not None else {}
                if not (isinstance(l, dict) and l.get("k") == "ref" and l.get("n") == n):
                    st = st.set(self.tkey(n), None)     # stored elsewhere (structure field, array cell, another variable): handed on
        if lhs is not None:
            l = strip(lhs)
            if isinstance(l, dict) and l.get("k") == "ref" and l.get("n") in self.locals and l.get("id") == self.locals[l["n"]]:
                r = strip(rhs) if rhs is not None else {}
                # t = MPI_DATATYPE_NULL / MPI_BYTE / another handle: whatever it is, it is not a type created here
                st = st.set(self.tkey(l["n"]), None)
        return st

    def refine(self, c, st, truth):
        out = ValueDomain.refine(self, c, st, truth)
        if out is None:
            return None
        cc = strip_pre(c)
        if isinstance(cc, dict) and cc.get("k") == "bin" and cc.get("op") in ("==", "!="):
            for x, y in ((cc["a"], cc["b"]), (cc["b"], cc["a"])):
                n = self.local_of_val(x)
                if n is not None and canon(y).startswith("&ompi_mpi_"):      # MPI_DATATYPE_NULL, MPI_BYTE, ...: a predefined handle, not a created type
                    is_null = (cc["op"] == "==") == truth
                    if is_null:
                        out = out.set(self.tkey(n), None)
        return out


class StatusDom(ValueDomain):
    """which values can a function return when MPI calls and allocations succeed?"""
    assume_mpi_ok = True

    def __init__(self, fn, nofail):
        ValueDomain.__init__(self, fn)
        self.nofail = nofail

    def tracked(self, key):
        if isinstance(key, str):
            return True
        if key[0] == "v":
            v = self.fn.vars.get(key[1])
            return v is not None and self.fn.type(v["t"]).get("k") == "int" and self.fn.type(v["t"]).get("bits", 0) <= 32 \
                and v.get("n") in ("mpireturn", "err", "status", "mpierr")
        return False

    def call_value(self, call, st):
        f = call.get("fn") or ""
        if f.startswith(("MPI_", "PMPI_")):
            return ZERO
        if f in r3free.ALLOC_FNS:
            return NONZERO
        if self.nofail(f):
            return ZERO
        return TOP

    def on_elem(self, elem, st, blk, idx):
        if elem.get("k") == "ret":
            return st.set("$ret", self.eval(elem["e"], st) if elem.get("e") is not None else ZERO)
        return st


class NoFail:
    """memoised: does the named library function return 0 on every path when MPI calls and allocations succeed?"""
    def __init__(self, prog):
        self.fns = {}
        for fn in prog.all_functions():
            self.fns.setdefault(fn.name, fn)
        self.memo = {}
        self.depth = 0

    def __call__(self, name):
        if name in self.memo:
            return self.memo[name]
        fn = self.fns.get(name)
        if fn is None or not fn.blocks or self.depth >= 3:
            return False
        self.memo[name] = False      # recursion guard
        self.depth += 1
        try:
            ex = Explorer(fn, StatusDom(fn, self), max_states=20000)
            try:
                ex.run(State())
            except Budget:
                return False
            ok = bool(ex.exits)
            for st, key in ex.exits:
                r = st.get("$ret", None)
                if not (isinstance(r, AVal) and r.kind == "fin" and set(r.s) == {0}):
                    ok = False
            self.memo[name] = ok
            return ok
        finally:
            self.depth -= 1


def check(ctx, prog, rule, min_functions=6, scope=None):
    creators = library_creators(prog)
    rel = releasers(prog)
    nofail = NoFail(prog)
    nf = 0
    for fn in prog.all_functions():
        if scope is not None and not scope(fn):
            continue
        has = False
        for vid, v in fn.vars.items():
            if v.get("dk", "local") == "local" and is_dtype(fn, v.get("t")):
                has = True
        if not has:
            continue
        uses = [c for b, i, c in patterns.call_sites(fn, lambda n: n in MPI_NEW or n in creators)]
        if not uses:
            continue
        dom = TypeDom(fn, creators, rel, nofail)
        ex = Explorer(fn, dom, max_states=200000)
        try:
            ex.run(State())
        except Budget:
            raise AnalysisBroken("%s: %s exceeds the state budget although only the datatype variables are tracked" % (rule, fn.name))
        ctx.states += ex.visited
        nf += 1
        ctx.functions_analysed.add((fn.unit.name, fn.name))
        leaked = {}
        for st, key in ex.exits:
            for n in dom.locals:
                if st.has(dom.tkey(n)) and n not in leaked:
                    leaked[n] = key
        for n in sorted(dom.locals):
            if n not in dom.created_at:
                continue
            inst = "%s:%s" % (fn.name, n)
            if n in leaked:
                ctx.fail(rule, fn.name, n, "the MPI datatype created in `%s` is neither released, handed on nor stored on a path to the exit: "
                         "the library still holds it after the last close" % n, fn=fn, line=dom.created_at[n], inst=inst,
                         detail={"path": ex.describe_path(leaked[n])})
            else:
                ctx.ok(rule, inst, "released, handed on or stored on every path")
    if nf < min_functions:
        raise AnalysisBroken("%s: only %d functions create MPI datatypes in locals (%d confirmed by hand)" % (rule, nf, min_functions))
    return nf
