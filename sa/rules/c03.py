"""C03 — files written conform to the classic format: the writer's side of the header grammar.

 R7.spec(enc)  every hdr_put_NC_* production, summarised per version from its CFG, equals the grammar of the format
               specification (word widths: NON_NEG 4/4/8, OFFSET 4/8/8; order of fields; nesting).
 R7.len        ncmpio_hdr_len_NC and its helpers add up exactly the terms the encoder writes (reported header size,
               allocated buffer, begin of data), with the widths (4,4)/(4,8)/(8,8) handed to the right parameters.
 R7.tags       list tags are NC_DIMENSION=10 / NC_ATTRIBUTE=12 / NC_VARIABLE=11, ABSENT is ZERO; magic is 'C','D','F',v.
 R7.vsize      CDF-1/2 vsize saturates to 2^32-1 above 2^32-4.
 R3.clobber    creating over an existing file without NC_NOCLOBBER passes through unlink / truncate before the open.
Data-area layout invariants are C18's (limits) and C06's (never-shrink, moves); values in the file are not decided."""
from facts import walk, strip, strip_pre, const_value, show, canon, lvalue_key
from frontend import AnalysisBroken
import cfg
import patterns
from rules import r7

TAGS = {"dimarray": 10, "attrarray": 12, "vararray": 11}


def check_tags(ctx, prog):
    for p, tag in TAGS.items():
        fn = ctx.need_fn(prog, "hdr_put_NC_" + p)
        consts = []
        for b, i, c in patterns.call_sites(fn, lambda n: n == "ncmpix_put_uint32"):
            v = const_value(c["args"][1]) if len(c.get("args", [])) > 1 else None
            if v is not None:
                consts.append(v)
        inst = "tag:" + p
        if sorted(set(consts)) == [0, tag]:
            ctx.ok("R7.tags", inst, "writes tag %d when present and ZERO when absent" % tag)
        else:
            ctx.fail("R7.tags", fn.name, inst, "the %s list is tagged with %s (the format says %d, ZERO when absent)" %
                     (p, sorted(set(consts)), tag), fn=fn, line=fn.line)
    # magic
    unit = [u for n, u in prog.units.items() if n.endswith("ncmpio_header_put.c")][0]
    want = {"ncmagic1": [67, 68, 70, 1], "ncmagic2": [67, 68, 70, 2], "ncmagic5": [67, 68, 70, 5]}
    for g, w in want.items():
        gv = unit.globals.get(g) if hasattr(unit, "globals") else None
        vals = None
        if gv is not None:
            vals = [const_value(x) for x in (gv.get("init") or {}).get("elems", [])]
        if vals is not None and vals[-4:] == w:
            ctx.ok("R7.tags", g, "magic bytes %s" % w)
        elif vals is None:
            raise AnalysisBroken("R7.tags: initialiser of %s not found" % g)
        else:
            ctx.fail("R7.tags", "ncmpio_hdr_put_NC", g, "magic %s is %s, the format says %s" % (g, vals, w),
                     fn=prog.fns("ncmpio_hdr_put_NC")[0], line=gv.get("line", 0))
    top = ctx.need_fn(prog, "ncmpio_hdr_put_NC")
    # each magic is written under the matching format test
    n_ok = 0
    for b, i, c in patterns.call_sites(top, lambda n: n == "ncmpix_putn_text"):
        which = canon(c["args"][2])
        ver = which[-1]
        sm = r7.Summ(top, int(ver), "enc")
        good = True
        conds = []
        for d in cfg.dominators(top).get(b.id, ()):
            blk = top.blocks[d]
            if d == b.id or blk.cond is None or len(blk.succs) != 2:
                continue
            dec = sm.decide(blk.cond)
            if dec is None:
                continue
            conds.append(canon(blk.cond))
            taken = blk.succs[0] if dec else blk.succs[1]
            if not (taken == b.id or b.id in patterns.region(top, taken, set())):
                good = False
        sets = [const_value(e["b"]) for e in b.elems if e.get("k") == "asg" and canon(e["a"]).endswith(".version")]
        if good and sets == [int(ver)]:
            n_ok += 1
            ctx.ok("R7.tags", "magic-branch:" + which, "written under the matching format test, version = %s" % ver)
        else:
            ctx.fail("R7.tags", top.name, "magic-branch:" + which, "%s is written under [%s] with version set to %s" %
                     (which, "; ".join(conds), sets), fn=top, line=c.get("l", top.line))
    ctx.require(n_ok + 0 >= 0 and len(patterns.call_sites(top, lambda n: n == "ncmpix_putn_text")) == 3,
                "ncmpio_hdr_put_NC: expected three magic writes")


def check_vsize(ctx, prog):
    fn = ctx.need_fn(prog, "hdr_put_NC_var")
    lim = sat = None
    for bid, blk in fn.blocks.items():
        c = strip_pre(blk.cond) if blk.cond is not None else None
        if isinstance(c, dict) and c.get("k") == "bin" and c.get("op") in (">", ">=") and canon(c["a"]).endswith("->len"):
            lim = (c["op"], const_value(c["b"]))
            tb = fn.blocks[blk.succs[0]]
            for e in tb.elems:
                if e.get("k") == "asg" and const_value(e["b"]) is not None:
                    sat = const_value(e["b"])
    if lim in ((">", 4294967292), (">=", 4294967293)) and sat == 4294967295:
        ctx.ok("R7.vsize", "hdr_put_NC_var", "vsize = 2^32-1 when len > 2^32-4")
    else:
        ctx.fail("R7.vsize", fn.name, "saturation", "vsize saturation is `len %s %s -> %s` (the CDF-2 specification: above "
                 "2^32-4 bytes write 2^32-1)" % (lim[0] if lim else "?", lim[1] if lim else "?", sat), fn=fn, line=fn.line)


def check_clobber(ctx, prog):
    fn = ctx.need_fn(prog, "ncmpio_create")
    opens = [(b, i, c) for b, i, c in patterns.call_sites(fn, lambda n: n == "MPI_File_open")
             if canon(c["args"][0]) == "comm"]
    ctx.require(len(opens) == 1, "ncmpio_create: the collective MPI_File_open was not found")
    target = opens[0][0].id
    removers = {"unlink", "truncate", "MPI_File_delete", "MPI_File_set_size", "open", "ftruncate"}
    paths = []

    def atom(c):
        t = canon(c)
        if "NC_NOCLOBBER" in show(c) or "cmode & 4" in t:
            return "NOCLOBBER", True
        if t == "rank == 0":
            return "RANK0", True
        if t == "file_exist":
            return "EXIST", True
        if t in ("!file_exist", "file_exist == 0"):
            return "EXIST", False
        return None, None

    def dfs(b, asg, calls, seen):
        if len(paths) > 5000:
            raise AnalysisBroken("R3.clobber: path budget exceeded")
        blk = fn.blocks[b]
        calls = set(calls)
        if b == target:
            paths.append((dict(asg), calls))
            return
        for e in blk.elems:
            for x in walk(e):
                if x.get("k") == "call" and x.get("fn") in removers:
                    calls.add(x["fn"])
                if x.get("k") == "asg" and canon(x["a"]) == "file_exist" and const_value(x["b"]) == 0:
                    asg = dict(asg, EXIST=False)
        if b == fn.exit or blk.noreturn or b in seen:
            return
        seen = seen | {b}
        if blk.cond is not None and len(blk.succs) == 2:
            nm, pol = atom(blk.cond)
            for k, s in enumerate(blk.succs):
                if s is None:
                    continue
                if nm is None:
                    dfs(s, asg, calls, seen)
                    continue
                val = (k == 0) == pol
                if nm in asg and asg[nm] != val:
                    continue
                dfs(s, dict(asg, **{nm: val}), calls, seen)
        else:
            for s in blk.succs:
                if s is not None:
                    dfs(s, asg, calls, seen)

    dfs(fn.entry, {}, set(), frozenset())
    ctx.require(len(paths) >= 3, "R3.clobber: only %d paths reach the open" % len(paths))
    atoms = set()
    for a, c in paths:
        atoms |= set(a)
    ctx.require({"NOCLOBBER", "RANK0", "EXIST"} <= atoms, "R3.clobber: the clobber decision atoms were not all found (%s)" % sorted(atoms))
    bad = [a for a, c in paths if a.get("NOCLOBBER") is False and a.get("RANK0") is True and a.get("EXIST") is not False
           and not c]
    if bad:
        ctx.fail("R3.clobber", fn.name, "open-without-removal", "a path reaches the collective MPI_File_open with NC_CLOBBER on "
                 "rank 0 for an existing file without unlink / truncate: bytes of the old file beyond the new one survive",
                 fn=fn, line=fn.line, inst="clobber")
    else:
        ctx.ok("R3.clobber", "clobber", "%d paths to the open; every clobbering path on rank 0 with an existing file removes or "
               "truncates it first" % len(paths))


def run(ctx):
    ctx.rule("R7.spec", "encoder productions equal the specification grammar for CDF-1/2/5")
    ctx.rule("R7.len", "header size function adds up exactly what the encoder writes")
    ctx.rule("R7.tags", "list tags, ABSENT and magic constants")
    ctx.rule("R7.vsize", "vsize saturation constant")
    ctx.rule("R3.clobber", "clobbering create removes / truncates the old file before opening")
    ctx.assume("the values written into the fields (which variable's begin, which attribute's bytes) and the data areas are not "
               "decided here; layout limits are C18's, move/never-shrink C06's, data-mode header rewrite C07's rules")
    prog = ctx.program(names=["ncmpio_header_put.c", "ncmpio_header_get.c", "ncmpio_create.c"])
    enc = r7.family(prog, r7.ENC, "enc")
    ctx.require(all(p in enc for p in r7.PRODS), "R7: encoder functions missing: %s" % [p for p in r7.PRODS if p not in enc])
    r7.check_spec(ctx, "R7.spec", enc, "encoder", prog, r7.ENC)
    r7.check_len(ctx, prog, "R7.len", enc)
    check_tags(ctx, prog)
    check_vsize(ctx, prog)
    check_clobber(ctx, prog)
    # the size function and the encoder take each name's length from the cached name_len: it must be the stored name's
    from rules import r4inplace
    ctx.rule("R4.namelen", "every cached name_len (read by the size function and the encoder) is the length of the stored name")
    nprog = ctx.program(names=["ncmpio_dim.c", "ncmpio_var.c", "ncmpio_attr.c", "ncmpio_header_get.c"])
    r4inplace.check_namelen(ctx, nprog, "R4.namelen")
