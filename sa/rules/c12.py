"""C12 — burst-buffer driver transparency: structure of the staging layer (sources of src/drivers/ncbbio, analysed with
-DENABLE_BURST_BUFFER=1 although the baseline build does not compile them).

 R2.flush     every entry point that must make staged writes visible (get_var/get_varn/get_vard, wait, sync, flush,
              redef, close) reaches ncbbio_log_flush / ncbbio_log_close before it forwards to the ncmpio driver, on
              every path on which the log is initialised.
 R3.logdel    ncbbio_log_close removes both log files under NC_LOG_HINT_DEL_ON_CLOSE and nothing else guards it.
 R4.siblings  ncbbio_log_put_var and ncbbio_log_put_varn keep the same bookkeeping (entry count, data-log size, per-entry
              size array, metadata index, largest entry, record-dimension size), and the largest-entry update uses the very
              amount the data log grew by (the flush buffer is sized from it).
 R8.shared    ncbbio_sharedfile_pread / pwrite: for bounded (channels, block size, offset, count) the sequence of system
              calls reads/writes every logical byte exactly once at ((block*nchannels + channel)*bsize + in-block offset),
              with the user buffer advanced by the bytes moved; both siblings produce the same sequence.
Equality of the final file with the default driver's, and read-your-writes for all programs, are not decided."""
from facts import walk, strip, strip_pre, const_value, show, canon, lvalue_key
from frontend import AnalysisBroken
from absint import ValueDomain, Explorer, State, AVal, fin, TOP, Budget, ONE, NONZERO
import concrete
import cfg
import patterns
from callgraph import slot_of_call

# entry point -> forwarded ncmpio slots that need the staged writes to be in the file first
NEED_FLUSH = {
    "ncbbio_get_var": {"get_var"}, "ncbbio_get_varn": {"get_varn"}, "ncbbio_get_vard": {"get_vard"},
    "ncbbio_wait": {"wait"}, "ncbbio_sync": {"sync"}, "ncbbio_flush": {"flush"}, "ncbbio_redef": {"redef"},
    "ncbbio_close": {"close"},
}
FLUSHERS = {"ncbbio_log_flush", "ncbbio_log_close", "ncbbio_log_flush_core"}


class FlushDom(ValueDomain):
    def tracked(self, key):
        return isinstance(key, str) or key[0] == "v" or (key[0] == "m" and key[2] == "inited")

    def eval(self, n, st):
        x = strip_pre(n)
        if isinstance(x, dict) and x.get("k") == "mem" and x.get("f") == "inited":
            return NONZERO          # the log is initialised (file open for writing, out of define mode at least once)
        return ValueDomain.eval(self, n, st)

    def on_call(self, call, st, blk, idx):
        f = call.get("fn")
        if f in FLUSHERS:
            return st.set("$flushed", ONE)
        s = slot_of_call(call) if not f else None
        if s and s in self.need and not st.has("$flushed"):
            self.bad.append((call, st))
        if s and s in self.need:
            self.seen += 1
        return st


def check_flush(ctx, prog):
    for name, slots in sorted(NEED_FLUSH.items()):
        fn = ctx.need_fn(prog, name)
        dom = FlushDom(fn)
        dom.need, dom.bad, dom.seen = slots, [], 0
        init = State()
        # the log is initialised (write mode)
        for p in fn.params:
            pass
        inited_key = None
        for b, i, e in fn.elements():
            for x in walk(e, into_pre=True):
                if x.get("k") == "mem" and x.get("f") == "inited":
                    inited_key = lvalue_key(x)
        for bid, blk in fn.blocks.items():
            if blk.cond is not None:
                for x in walk(blk.cond, into_pre=True):
                    if x.get("k") == "mem" and x.get("f") == "inited":
                        inited_key = lvalue_key(x)
        ctx.require(inited_key is not None, "%s: no test of ncbbp->inited found" % name)
        init = init.set(inited_key, NONZERO)
        try:
            ex = Explorer(fn, dom, max_states=200000).run(init)
        except Budget as e:
            raise AnalysisBroken(str(e))
        ctx.states += ex.visited
        inst = "%s->%s" % (name, "/".join(sorted(slots)))
        if dom.seen == 0:
            raise AnalysisBroken("%s: forwarded call to ncmpio %s not found" % (name, sorted(slots)))
        if dom.bad:
            c, st = dom.bad[0]
            ctx.fail("R2.flush", name, "/".join(sorted(slots)), "with the log initialised, %s() can forward to the ncmpio driver's %s "
                     "without having flushed the log: staged writes are not visible to this operation" %
                     (name, "/".join(sorted(slots))), fn=fn, line=c.get("l", fn.line), inst=inst)
        else:
            ctx.ok("R2.flush", inst, "every path with the log initialised flushes before forwarding (%d forward site visits)" % dom.seen)


def check_logdel(ctx, prog):
    fn = ctx.need_fn(prog, "ncbbio_log_close")
    uns = patterns.call_sites(fn, lambda n: n == "unlink")
    paths = {canon(c["args"][0]) for b, i, c in uns}
    want = {"ncbbp->datalogpath", "ncbbp->metalogpath"}
    guards = set()
    for b, i, c in uns:
        for d in cfg.dominators(fn).get(b.id, ()):
            blk = fn.blocks[d]
            if blk.cond is None or d == b.id or len(blk.succs) != 2 or None in blk.succs:
                continue
            t, f = blk.succs
            j = patterns.ipdom(fn, d)
            stop = {j} if j is not None else set()
            in_t = t != j and (b.id == t or b.id in patterns.region(fn, t, stop))
            in_f = f != j and (b.id == f or b.id in patterns.region(fn, f, stop))
            if in_t != in_f:
                guards.add(canon(blk.cond))
    ok_guard = any("NC_LOG_HINT_DEL_ON_CLOSE" in g or "& 2" in g for g in guards)
    extra = [g for g in guards if "NC_LOG_HINT_DEL_ON_CLOSE" not in g and "metalog_fd" not in g and "& 2" not in g]
    if paths == want and ok_guard and not extra:
        ctx.ok("R3.logdel", "ncbbio_log_close", "both log files unlinked under NC_LOG_HINT_DEL_ON_CLOSE (log created)")
    else:
        ctx.fail("R3.logdel", fn.name, "unlink", "log removal at close: files %s, guards %s (expected both logs, guarded only by the "
                 "delete-on-close hint and the log having been created)" % (sorted(paths), sorted(guards)), fn=fn, line=fn.line)


BOOK = {"num_entries", "datalogsize", "maxentrysize", "recdimsize"}
BOOK_CALLS = {"ncbbio_log_sizearray_append", "ncbbio_metaidx_add"}


def bookkeeping(fn):
    upd = {}
    for b, i, e in fn.elements():
        for x in walk(e):
            if x.get("k") == "asg":
                l = strip(x["a"])
                if isinstance(l, dict) and l.get("k") == "mem" and l.get("f") in BOOK:
                    upd.setdefault(l["f"], []).append((x.get("op"), canon(x["b"]), x.get("l")))
            if x.get("k") == "un" and "++" in x.get("op", ""):
                l = strip(x["e"])
                if isinstance(l, dict) and l.get("k") == "mem" and l.get("f") in BOOK:
                    upd.setdefault(l["f"], []).append(("++", "1", x.get("l")))
            if x.get("k") == "call" and x.get("fn") in BOOK_CALLS:
                upd.setdefault(x["fn"], []).append(("call", "", x.get("l")))
    return upd


def check_siblings(ctx, prog):
    a = ctx.need_fn(prog, "ncbbio_log_put_var")
    b = ctx.need_fn(prog, "ncbbio_log_put_varn")
    ua, ub = bookkeeping(a), bookkeeping(b)
    all_keys = BOOK | BOOK_CALLS
    for fn, u in ((a, ua), (b, ub)):
        missing = sorted(all_keys - set(u))
        inst = "%s:bookkeeping" % fn.name
        if missing:
            ctx.fail("R4.siblings", fn.name, "bookkeeping", "%s() does not update %s, which its sibling log-append function "
                     "maintains: the flush / inquiry that relies on it sees a stale value" % (fn.name, ", ".join(missing)),
                     fn=fn, line=fn.line, inst=inst)
        else:
            ctx.ok("R4.siblings", inst, "updates %s" % ", ".join(sorted(u)))
        # largest entry is updated with the amount the data log grows by
        grow = [r for op, r, l in u.get("datalogsize", []) if op == "+="]
        mx = [r for op, r, l in u.get("maxentrysize", []) if op == "="]
        inst = "%s:maxentry" % fn.name
        if grow and mx and set(mx) == set(grow):
            ctx.ok("R4.siblings", inst, "maxentrysize tracks `%s`, the amount added to datalogsize" % grow[0])
        else:
            ctx.fail("R4.siblings", fn.name, "maxentrysize", "the largest-entry size is updated with `%s` but the data log grows by "
                     "`%s`: the flush buffer (sized from maxentrysize) can be smaller than one entry and the flush never "
                     "progresses" % (", ".join(mx) or "nothing", ", ".join(grow) or "nothing"), fn=fn, line=fn.line, inst=inst)


def run_shared(fn, nch, ch, bs, count, offset):
    env = {"$dyn": True, "f->nchanel": nch, "f->chanel": ch, "f->bsize": bs, "f->fd": 5, "f->fsize": 0, "f->pos": 0,
           "buf": 0, "count": count, "offset": offset}
    ops = []

    def hook(e, args, env):
        f = e.get("fn")
        if f in ("pread", "pwrite"):
            ops.append((args[1], args[2], args[3]))
            env["$ret:" + f] = args[2]
    concrete.run_region(fn, (fn.entry, 0), set(), env, events=None, max_steps=20000, call_hook=hook)
    return ops, env.get("$ret")


def check_shared(ctx, prog):
    rd = ctx.need_fn(prog, "ncbbio_sharedfile_pread")
    wr = ctx.need_fn(prog, "ncbbio_sharedfile_pwrite")
    bad = None
    n = 0
    deep = ctx.tier == "thorough"
    for nch in ((1, 2, 3, 4) if deep else (1, 2, 3)):
        for ch in range(nch):
            for bs in ((8, 5) if deep else (8,)):
                for offset in range(0, 34 if deep else 20):
                    for count in range(0, 40 if deep else 26):
                        res = {}
                        for nm, fn in (("pread", rd), ("pwrite", wr)):
                            try:
                                ops, ret = run_shared(fn, nch, ch, bs, count, offset)
                            except concrete.Unsupported as e:
                                raise AnalysisBroken("R8.shared: %s is no longer interpretable: %s" % (fn.name, e))
                            res[nm] = ops
                            n += 1
                            # model
                            got = {}
                            why = None
                            for boff, ln, foff in ops:
                                if ln is None or ln < 0:
                                    why = "negative length"
                                    break
                                for k in range(ln):
                                    if boff + k in got:
                                        why = "buffer byte %d transferred twice" % (boff + k)
                                    got[boff + k] = foff + k
                            if why is None:
                                for k in range(count):
                                    L = offset + k
                                    phys = L if nch == 1 else ((L // bs) * nch + ch) * bs + L % bs
                                    if got.get(k) != phys:
                                        why = "logical byte %d (buffer offset %d) is transferred at file offset %s, expected %d" % (L, k, got.get(k), phys)
                                        break
                                if why is None and len(got) != count:
                                    why = "%d bytes transferred for a request of %d" % (len(got), count)
                            if why and not bad:
                                bad = (fn, nch, ch, offset, count, "%d-byte blocks: %s" % (bs, why))
                        if res["pread"] != res["pwrite"] and not bad:
                            bad = (rd, nch, ch, offset, count, "%d-byte blocks: " % bs + "pread and pwrite issue different (buffer, length, file offset) sequences: %s vs %s" % (res["pread"][:4], res["pwrite"][:4]))
    if bad:
        fn, nch, ch, offset, count, why = bad
        ctx.fail("R8.shared", fn.name, "blockmap", "with %d channel(s), channel %d, offset %d, count %d, %s" %
                 (nch, ch, offset, count, why), fn=fn, line=fn.line, inst="sharedfile")
    else:
        ctx.ok("R8.shared", "sharedfile", "%d (function, channels, channel, offset, count) cells: every logical byte moved once at its "
               "mapped offset; pread and pwrite agree" % n)
    ctx.notes.append("R8.shared is a bounded evaluation of the block-mapping slices (8-byte blocks, offsets < 20, counts < 26)")


def check_opencache(ctx, prog):
    """a field of the driver object that an inquiry function consults and that a define-mode function derives from the
    schema (recdimid: set by ncbbio_def_dim when the unlimited dimension is defined) describes the file, not the session:
    ncbbio_open has to derive it from the file it opens (a store of something other than a constant, or the field's
    address handed to a driver inquiry), otherwise an opened file answers inquiries differently from a created one."""
    read_by_inq = set()
    for fn in prog.all_functions():
        if fn.name.startswith("ncbbio_inq"):
            for b, i, e in fn.elements():
                for x in walk(e, into_pre=True):
                    if x.get("k") == "mem" and x.get("rec") == "NC_bb":
                        read_by_inq.add(x["f"])
            for bid, blk in fn.blocks.items():
                if blk.cond is not None:
                    for x in walk(blk.cond, into_pre=True):
                        if x.get("k") == "mem" and x.get("rec") == "NC_bb":
                            read_by_inq.add(x["f"])
    from_schema = set()
    for fn in prog.all_functions():
        if fn.name in ("ncbbio_def_dim", "ncbbio_def_var"):
            for b, i, e in fn.elements():
                for x in walk(e):
                    if x.get("k") == "asg":
                        l = strip(x["a"])
                        if l.get("k") == "mem" and l.get("rec") == "NC_bb" and const_value(x["b"]) is None:
                            from_schema.add(l["f"])
    fields = sorted(read_by_inq & from_schema)
    ctx.require(fields, "R4.opencache: no field of NC_bb is both set by a define function and read by an inquiry function")
    fn = ctx.need_fn(prog, "ncbbio_open")
    for f in fields:
        ok = False
        for b, i, e in fn.elements():
            for x in walk(e, into_pre=True):
                if x.get("k") == "asg":
                    l = strip(x["a"])
                    if l.get("k") == "mem" and l.get("f") == f and l.get("rec") == "NC_bb" and const_value(x["b"]) is None:
                        ok = True
                if x.get("k") == "call":
                    for a in x.get("args", []):
                        sa = strip(a)
                        if isinstance(sa, dict) and sa.get("k") == "un" and sa.get("op") == "&":
                            t = strip(sa["e"])
                            if t.get("k") == "mem" and t.get("f") == f and t.get("rec") == "NC_bb":
                                ok = True
        inst = "ncbbio_open:%s" % f
        if ok:
            ctx.ok("R4.opencache", inst, "derived from the opened file")
        else:
            ctx.fail("R4.opencache", "ncbbio_open", f, "NC_bb.%s is consulted by the inquiry functions and set from the schema by the define "
                     "functions, but ncbbio_open only stores a constant: on an opened file the inquiry answers as if the schema had no "
                     "such object (the record dimension's length misses the records still in the log)" % f, fn=fn, line=fn.line, inst=inst)


def check_logret(ctx, prog):
    """R1.logret: the log files are written with POSIX calls behind ncbbio_sharedfile_*; every function that can return such a
    failure (closure over direct calls) has its result carried to a non-zero return by each caller in the driver."""
    from callgraph import CallGraph
    from rules import c11
    cg = CallGraph(prog)
    ioerr = set()
    for fn in prog.all_functions():
        if fn.name.startswith("ncbbio_sharedfile_") and fn.type(fn.ret).get("k") != "void":
            ioerr.add(fn.name)
    ctx.require(len(ioerr) >= 5, "R1.logret: only %d ncbbio_sharedfile_* functions return a status" % len(ioerr))
    changed = True
    while changed:
        changed = False
        for fn in prog.all_functions():
            if fn.name in ioerr or fn.type(fn.ret).get("k") == "void":
                continue
            if any(n in ioerr for (_, _, c, names) in cg.calls.get(fn, []) for n in names if c.get("fn")):
                ioerr.add(fn.name)
                changed = True
    for fn in prog.all_functions():
        allc = [cc for (_, _, cc, _) in cg.calls.get(fn, [])]
        for (b, i, c, names) in cg.calls.get(fn, []):
            if c.get("fn") in ioerr:
                ctx.functions_analysed.add((fn.unit.name, fn.name))
                c11.check_site(ctx, fn, c, "R1.logret", c11.site_id(fn, c, allc), c["fn"])
    ctx.min_instances("R1.logret", 40)


def run(ctx):
    ctx.rule("R2.flush", "visibility points flush the log before forwarding to the ncmpio driver")
    ctx.rule("R3.logdel", "log files are removed at close under the delete-on-close hint")
    ctx.rule("R4.siblings", "the two log-append functions keep the same bookkeeping; largest entry tracks the log growth")
    ctx.rule("R8.shared", "shared log file block mapping (bounded)")
    ctx.assume("src/drivers/ncbbio is analysed with -DENABLE_BURST_BUFFER=1; the baseline build and test suite do not compile it")
    ctx.assume("POSIX read/write calls transfer the requested length")
    prog = ctx.program(groups=["bb"])
    check_flush(ctx, prog)
    check_logdel(ctx, prog)
    check_siblings(ctx, prog)
    check_shared(ctx, prog)
    ctx.rule("R4.opencache", "schema-derived fields of the driver object that inquiries consult are derived from the file at open")
    check_opencache(ctx, prog)
    from rules import r9signcmp, r9nullarith
    ctx.rule("R9.signcmp", "no ordering comparison sets an unsigned value against a negative constant (burst-buffer driver, library, tools)")
    r9signcmp.check(ctx, ctx.program(groups=["lib", "bb", "util"]), "R9.signcmp")
    ctx.rule("R9.nullarith", "burst-buffer driver: a pointer parameter the function tests against NULL is not used unprotected where the "
             "NULL side of such a test can reach")
    r9nullarith.check(ctx, prog, "R9.nullarith", min_params=12)
    ctx.rule("R1.logret", "a failing log-file operation (ncbbio_sharedfile_*, and every driver function that can return its "
             "status) makes each calling driver function return non-zero on all paths after the call")
    check_logret(ctx, prog)
    from rules import r10echar
    ctx.rule("R10.echar", "flexible puts through the burst-buffer driver: the decoded element type reaches the log only behind the "
             "text/numeric test (NC_ECHAR), as in the default driver (library + burst-buffer sources)")
    r10echar.check(ctx, ctx.program(groups=["lib", "bb"]), "R10.echar", 7)
    from rules import r8bbwait
    ctx.rule("R8.bbwait", "ncbbio_wait: each named request is completed once by the driver that owns it (even ids: the log's put "
             "list, odd ids: ncmpio, halved), NC_REQ_NULL completes nothing, statuses follow the caller's list order, the list is "
             "all NC_REQ_NULL after a clean wait (bounded: lists of up to 4 ids)")
    wfn = ctx.need_fn(prog, "ncbbio_wait")
    def mac(nm):
        try:
            return int(wfn.unit.macros[nm].strip("() "), 0)
        except Exception:
            raise AnalysisBroken("macro %s not found / not a constant" % nm)
    nw = r8bbwait.check(ctx, wfn, "R8.bbwait", mac("NC_EINVAL_REQUEST"), mac("NC_MODE_INDEP"))
    ctx.require(nw >= 5000, "R8.bbwait: only %d cells evaluated" % nw)
    from rules import r8flushbatch
    ctx.rule("R8.flushbatch", "each flush round gathers exactly the data-log bytes of the valid entries of its batch, cancelled entries "
             "skipped after what precedes them has been read (bounded: logs of up to 4 entries)")
    nfb = r8flushbatch.check(ctx, ctx.need_fn(prog, "ncbbio_log_flush_core"), "R8.flushbatch")
    ctx.require(nfb >= 500, "R8.flushbatch: only %d logs evaluated" % nfb)
