"""R10.nameeq — a name lookup decides by equality of the whole name.

Every comparison of a stored object name (`<obj>->name` of a dimension, variable or attribute) with a looked-up string is
either strcmp(), or a length-bounded comparison (strncmp / memcmp / strncasecmp with bound n) whose call is reached only
through the true edge of a test `<obj>->name_len == n` on the same object: a bounded comparison alone accepts every
stored name that merely starts with the looked-up one (lookup by name then answers with another object's id, and
defining or renaming to an unused name is refused as in use)."""
import cfg
from facts import walk, strip, canon
from frontend import AnalysisBroken

BOUNDED = {"strncmp": 2, "memcmp": 2, "strncasecmp": 2, "bcmp": 2}
FULL = {"strcmp"}


def check(ctx, prog, rule, min_instances):
    n = 0
    for fn in prog.all_functions():
        for b, i, e in fn.elements():
            c = strip(e)
            if not (isinstance(c, dict) and c.get("k") == "call" and (c.get("fn") in FULL or c.get("fn") in BOUNDED)):
                continue
            args = [canon(strip(a)) for a in c.get("args", [])]
            objs = [a[:-len("->name")] for a in args[:2] if a.endswith("->name")]
            if not objs:
                continue
            obj = objs[0]
            n += 1
            inst = "%s:%s@%s" % (fn.name, c["fn"], obj)
            ctx.functions_analysed.add((fn.unit.name, fn.name))
            if c["fn"] in FULL:
                ctx.ok(rule, inst, "whole-string comparison")
                continue
            bound = args[BOUNDED[c["fn"]]] if len(args) > BOUNDED[c["fn"]] else None
            guarded = False
            for blk in fn.blocks.values():
                cond = blk.cond
                if cond is None or len(blk.succs) != 2 or blk.succs[0] is None:
                    continue
                t = canon(strip(cond))
                if t in ("%s->name_len == %s" % (obj, bound), "%s == %s->name_len" % (bound, obj)):
                    tb = blk.succs[0]
                    if tb == b.id or tb in cfg.dominators(fn).get(b.id, ()):
                        guarded = True
            if guarded:
                ctx.ok(rule, inst, "bounded comparison under `%s->name_len == %s`" % (obj, bound))
            else:
                ctx.fail(rule, fn.name, "%s@%s" % (c["fn"], obj), "%s(%s) compares only the first %s bytes of the stored name and no test "
                         "`%s->name_len == %s` guards it: every stored name that starts with the looked-up name matches" %
                         (c["fn"], ", ".join(args), bound, obj, bound), fn=fn, line=c.get("l", fn.line), inst=inst)
    if n < min_instances:
        raise AnalysisBroken("%s: only %d comparisons of stored names found (expected >= %d)" % (rule, n, min_instances))
    return n
