"""R4.rdonly — every layer derives "this file is read-only" from the same thing: the NC_WRITE bit of the open mode.

The dispatcher (ncmpi_open), the drivers' open functions and the choice of the MPI-IO access mode each test the open
mode on their own.  Every such test (a branch condition of an *open function that mentions the `omode` parameter and no
other program state) is evaluated by the analyser on all combinations of the sixteen low mode bits.  A test whose outcome
depends on the NC_WRITE bit must depend on no other bit: then it is NC_WRITE-set or NC_WRITE-clear in every layer, and the
layers cannot disagree about writability for any mode word (`omode == NC_NOWRITE` is true for NC_NOWRITE alone and false
for NC_NOWRITE|NC_SHARE, which the dispatcher still treats as read-only).  A store of NC_MODE_RDONLY controlled by such a
test must sit on the side where NC_WRITE is clear."""
import concrete
import cfg
from facts import walk, strip, canon
from frontend import AnalysisBroken

BITS = [1 << k for k in range(16)]


def _mentions(n, name):
    return any(isinstance(x, dict) and x.get("k") == "ref" and x.get("n") == name for x in walk(n, into_pre=True))


def check(ctx, prog, rule, write_bit, rdonly_macro, min_instances):
    n_w = 0
    for fn in prog.all_functions():
        if not (fn.name.endswith("_open") or fn.name == "ncmpi_open"):
            continue
        if not any(p["n"] == "omode" for p in fn.params):
            continue
        for blk in fn.blocks.values():
            cond = blk.cond
            if cond is None or len(blk.succs) != 2 or not _mentions(cond, "omode"):
                continue

            def pred(v):
                return 1 if concrete.evs(cond, {"omode": v}) else 0
            try:
                table = {}
                # all subsets of the 16 bits is 65536 evaluations per test: sample every pair of bits on / off around each word
                words = {0, 0xFFFF}
                for b in BITS:
                    words |= {b, 0xFFFF ^ b}
                    for b2 in BITS:
                        words.add(b | b2)
                for v in sorted(words):
                    table[v] = pred(v)
            except (concrete.Unsupported, KeyError):
                continue          # involves other program state: not a pure test of the mode word
            dep_w = any(table[v] != pred(v ^ write_bit) for v in table)
            if not dep_w:
                continue
            n_w += 1
            inst = "%s:%s" % (fn.name, canon(strip(cond))[:60])
            ctx.functions_analysed.add((fn.unit.name, fn.name))
            other = [b for b in BITS if b != write_bit and any(table[v] != pred(v ^ b) for v in table)]
            if other:
                ex = next(v for v in sorted(table) for b in other[:1] if table[v] != pred(v ^ b))
                ctx.fail(rule, fn.name, canon(strip(cond))[:60], "the writability test `%s` also depends on mode bit(s) %s: for omode=0x%x "
                         "and omode=0x%x (same NC_WRITE bit) it answers differently, so this layer and the layers that test NC_WRITE "
                         "alone disagree on whether the file is read-only" %
                         (canon(strip(cond))[:80], ", ".join("0x%x" % b for b in other[:4]), ex, ex ^ other[0]),
                         fn=fn, line=blk.tl or fn.line, inst=inst)
                continue
            true_means_ro = table[0] == 1
            # a store of the read-only bit controlled by this test must be on the NC_WRITE-clear side
            ok = True
            for side, ro_side in ((0, true_means_ro), (1, not true_means_ro)):
                sb = blk.succs[side]
                if sb is None or ro_side:
                    continue
                other_sb = blk.succs[1 - side]
                for b2, i2, e2 in fn.elements():
                    if b2.id != sb:
                        continue
                    s = strip(e2)
                    if isinstance(s, dict) and s.get("k") == "asg" and s.get("op") in ("|=", "=") and rdonly_macro in canon(s.get("b")) \
                            and "~" not in canon(s.get("b")):
                        ok = False
                        ctx.fail(rule, fn.name, "polarity", "NC_MODE_RDONLY is set on the side of `%s` where NC_WRITE is set" %
                                 canon(strip(cond))[:80], fn=fn, line=e2.get("l", fn.line), inst=inst)
            if ok:
                ctx.ok(rule, inst, "depends on the NC_WRITE bit only (%d mode words evaluated)" % len(table))
    if n_w < min_instances:
        raise AnalysisBroken("%s: only %d tests of the NC_WRITE bit found in the open functions (expected >= %d)" % (rule, n_w, min_instances))
    return n_w
