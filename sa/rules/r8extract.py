"""R8.extract — extract_reqs(): the lead requests selected for completion are exactly those named by the non-NULL
entries of the id list (NC_REQ_NULL entries are skipped, as documented), whatever shortcut the function takes.
The selection part of the function (up to the first allocation of the extracted lists) is evaluated by the analyser on
small queues and id lists and compared with that specification.  Bounded: up to 3 pending puts and 2 pending gets,
id lists of up to 3 entries drawn from the pending ids and NC_REQ_NULL, in every order.  With a status array, each
selected request's `status` pointer must be the slot of the list entry that names it (the queue is sorted by file offset,
not by the order of the ids)."""
import itertools
import concrete
from facts import walk, strip, canon, const_value
from frontend import AnalysisBroken

TO_FREE = None
UNKNOWN_PUT, UNKNOWN_GET = 98, 99


def check(ctx, fn, rule, to_free_bit, req_null):
    # stop at the block of the first allocation (the extraction / compaction that follows is pointer surgery)
    stop = set()
    for b, i, e in fn.elements():
        if any(c.get("k") == "call" and (c.get("fn") or "") in ("malloc", "NCI_Malloc_fn", "memcpy") for c in walk(e)):
            stop.add(b.id)
    n = 0
    bad = None
    bad_status = None
    bad_unknown = None
    bad_shortcut = None
    for nput in range(0, 4):
        for nget in range(0, 3):
            put_ids = [2 * (k + 1) for k in range(nput)]
            get_ids = [2 * k + 1 for k in range(nget)]
            pool = put_ids + get_ids + [req_null, UNKNOWN_PUT, UNKNOWN_GET]
            for ln in range(1, 4):
                for ids in itertools.product(pool, repeat=ln):
                    real = [x for x in ids if x != req_null]
                    if len(set(real)) != len(real):
                        continue                      # duplicates are a caller error
                    unknown = [x for x in real if x in (UNKNOWN_PUT, UNKNOWN_GET)]
                    if unknown and (nput + nget == 0 or len(unknown) == len(real)):
                        continue                      # only the mixture of known and unknown ids is of interest
                    for with_status in (0, 1):
                        env = {"$dyn": True, "num_reqs": ln, "ncp->numLeadPutReqs": nput, "ncp->numLeadGetReqs": nget,
                               "ncp->numPutReqs": nput, "ncp->numGetReqs": nget, "ncp->put_list": 7000, "ncp->get_list": 8000,
                               "statuses": ("P", "statuses", 0) if with_status else 0, "req_ids": ("P", "req_ids", 0)}
                        for k, x in enumerate(ids):
                            env["req_ids[%d]" % k] = x
                            env["statuses[%d]" % k] = 777
                        for k, x in enumerate(put_ids):
                            env["ncp->put_lead_list[%d].id" % k] = x
                            env["ncp->put_lead_list[%d].flag" % k] = 0
                            env["ncp->put_lead_list[%d].nonlead_num" % k] = 1
                            env["ncp->put_lead_list[%d].nonlead_off" % k] = k
                        for k, x in enumerate(get_ids):
                            env["ncp->get_lead_list[%d].id" % k] = x
                            env["ncp->get_lead_list[%d].flag" % k] = 0
                            env["ncp->get_lead_list[%d].nonlead_num" % k] = 1
                            env["ncp->get_lead_list[%d].nonlead_off" % k] = k
                        try:
                            concrete.run_region(fn, (fn.entry, 0), stop, env, events=None, max_steps=4000)
                        except concrete.Unsupported as u:
                            raise AnalysisBroken("%s is no longer interpretable: %s" % (fn.name, u))
                        except KeyError as u:
                            raise AnalysisBroken("%s reads an unbound location %s" % (fn.name, u))
                        n += 1
                        marked = {x for k, x in enumerate(put_ids) if env.get("ncp->put_lead_list[%d].flag" % k, 0) & to_free_bit}
                        marked |= {x for k, x in enumerate(get_ids) if env.get("ncp->get_lead_list[%d].flag" % k, 0) & to_free_bit}
                        if unknown:
                            # a list naming an id that is not pending: shortcut lists (as long as a whole queue, no status array)
                            # are the caller's statement that it names the whole queue; every other list must be refused whole
                            whole = (not with_status) and (ln == nput + nget or (nget == 0 and ln == nput) or (nput == 0 and ln == nget))
                            if whole and bad_shortcut is None and (not env.get("$ret") or marked):
                                bad_shortcut = (put_ids, get_ids, ids, "the call answers %s and marks request(s) %s for completion" %
                                                ("NC_NOERR" if not env.get("$ret") else "an error", sorted(marked)))
                            if not whole and bad_unknown is None:
                                if not env.get("$ret"):
                                    bad_unknown = (put_ids, get_ids, ids, "the call answers NC_NOERR")
                                elif marked:
                                    bad_unknown = (put_ids, get_ids, ids, "the call is refused but request(s) %s stay marked for "
                                                   "completion: they can no longer be waited for by id and are discarded, unwritten, by "
                                                   "the next call that compacts the queue" % sorted(marked))
                            continue
                        if marked != set(real) and bad is None:
                            bad = (put_ids, get_ids, ids, sorted(marked))
                        if with_status and marked == set(real) and bad_status is None:
                            # each selected request reports into the slot of the list entry that names it
                            for lst, pre in ((put_ids, "ncp->put_lead_list"), (get_ids, "ncp->get_lead_list")):
                                for k, x in enumerate(lst):
                                    if x not in real:
                                        continue
                                    sp = env.get("%s[%d].status" % (pre, k))
                                    want = ("P", "statuses", list(ids).index(x))
                                    if sp != want:
                                        bad_status = (put_ids, get_ids, ids, x, sp[2] if isinstance(sp, tuple) else sp, want[2])
    inst = "%s:selection" % fn.name
    if bad:
        put_ids, get_ids, ids, marked = bad
        show_ids = ["NC_REQ_NULL" if x == req_null else x for x in ids]
        ctx.fail(rule, fn.name, "selection", "pending put ids %s, get ids %s, waiting for %s: the requests selected for completion "
                 "are %s (a request that was not named is completed and its id invalidated, or a named one is left pending)" %
                 (put_ids, get_ids, show_ids, marked), fn=fn, line=fn.line, inst=inst)
    else:
        ctx.ok(rule, inst, "%d (queue, id list) cells: exactly the named requests are selected" % n)
    inst = "%s:status" % fn.name
    if bad_status:
        put_ids, get_ids, ids, x, got, want = bad_status
        show_ids = ["NC_REQ_NULL" if y == req_null else y for y in ids]
        ctx.fail(rule, fn.name, "status", "pending put ids %s, get ids %s (in queue order), waiting for %s with a status array: request %s "
                 "reports into statuses[%s], its id is listed at position %s - requests report each other's status" %
                 (put_ids, get_ids, show_ids, x, got, want), fn=fn, line=fn.line, inst=inst)
    elif bad is None:
        ctx.ok(rule, inst, "every selected request reports into the slot of the list entry that names it")
    inst = "%s:unknown" % fn.name
    if bad_unknown:
        put_ids, get_ids, ids, why = bad_unknown
        show_ids = ["NC_REQ_NULL" if y == req_null else ("<unknown id %d>" % y if y in (UNKNOWN_PUT, UNKNOWN_GET) else y) for y in ids]
        ctx.fail(rule, fn.name, "unknown", "pending put ids %s, get ids %s, waiting for %s (one id is not pending): %s" %
                 (put_ids, get_ids, show_ids, why), fn=fn, line=fn.line, inst=inst)
    else:
        ctx.ok(rule, inst, "a list that names an id which is not pending is refused and leaves no request marked")
    inst = "%s:unknown-shortcut" % fn.name
    if bad_shortcut:
        put_ids, get_ids, ids, why = bad_shortcut
        show_ids = ["NC_REQ_NULL" if y == req_null else ("<unknown id %d>" % y if y in (UNKNOWN_PUT, UNKNOWN_GET) else y) for y in ids]
        ctx.fail(rule, fn.name, "unknown-shortcut", "pending put ids %s, get ids %s, waiting for %s without a status array - a list as long as "
                 "a pending queue is taken for that whole queue without looking at the ids: %s (a request that was not named is "
                 "completed, the unknown id is accepted)" % (put_ids, get_ids, show_ids, why), fn=fn, line=fn.line, inst=inst)
    else:
        ctx.ok(rule, inst, "lists as long as a pending queue are still checked id by id")
    return n
