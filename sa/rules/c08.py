"""C08 — collective calls match on all ranks (rule family R2).

 R2.seq    for every collective entry point of the ncmpio driver (and for every function it
           reaches) and every valuation of the rank-uniform predicates, the sequence of MPI
           collective operations is the same whatever the rank-varying data (user arguments
           of data APIs, the NC_REQ_ZERO bit, request queues, rank, error codes derived from
           them, I/O fault returns) make the varying branches do.
 R2.safe   in the dispatcher's metadata wrappers, with safe mode on, every return that
           follows a collective returns a rank-uniform value (derived from Allreduce/Bcast),
           so that disagreement is reported with the same code on every process.
 R2.zero   on the NC_REQ_ZERO path no driver data API dereferences start/count/stride/buf
           or indexes by varid (the dispatcher may pass invalid values there).
"""
from absint import ValueDomain, Explorer, State, AVal, TOP, ZERO, ONE, NONZERO, fin, Budget
from callgraph import CallGraph, slot_of_call
from facts import walk, strip, strip_pre, const_value, show, lvalue_key, macro_of
from frontend import AnalysisBroken
import cfg
import patterns
import seqlang
from seqlang import Engine, UDom, Broken

REQ = {"COLL": 0x1, "INDEP": 0x2, "WR": 0x4, "RD": 0x8, "ZERO": 0x10, "HL": 0x20, "FLEX": 0x40, "BLK": 0x80,
       "NBI": 0x100, "NBB": 0x200}

# parameters of driver entry points that carry per-rank data
VARYING_PARAMS = {"varid", "start", "count", "stride", "imap", "buf", "bufcount", "buftype", "num", "starts",
                  "counts", "req_ids", "num_reqs", "statuses", "filetype", "reqid", "nvars", "varids", "bufs",
                  "bufcounts", "buftypes", "reqids"}

ENTRY = [   # (function, kind)
    ("ncmpio_create", "file"), ("ncmpio_open", "file"), ("ncmpio_close", "file"), ("ncmpio_enddef", "file"),
    ("ncmpio__enddef", "file"), ("ncmpio_redef", "file"), ("ncmpio_sync", "file"), ("ncmpio_abort", "file"),
    ("ncmpio_sync_numrecs", "file"), ("ncmpio_begin_indep_data", "file"), ("ncmpio_end_indep_data", "file"),
    ("ncmpio_set_fill", "meta"), ("ncmpio_def_dim", "meta"), ("ncmpio_rename_dim", "meta"),
    ("ncmpio_def_var", "meta"), ("ncmpio_def_var_fill", "meta"), ("ncmpio_rename_var", "meta"),
    ("ncmpio_put_att", "meta"), ("ncmpio_del_att", "meta"), ("ncmpio_rename_att", "meta"),
    ("ncmpio_copy_att", "meta"), ("ncmpio_fill_var_rec", "meta"),
    ("ncmpio_put_var", "WR"), ("ncmpio_get_var", "RD"), ("ncmpio_put_varn", "WR"), ("ncmpio_get_varn", "RD"),
    ("ncmpio_put_vard", "WR"), ("ncmpio_get_vard", "RD"), ("ncmpio_wait", "wait"),
]


def entry_context(fn, kind):
    ctx = {}
    for p in fn.params:
        pk = ("v", p["id"], p["n"])
        if p["n"] == "reqMode":
            if kind in ("WR", "RD"):
                k1 = REQ["COLL"] | REQ[kind] | REQ["BLK"]
                k0 = REQ["INDEP"] | REQ["WR" if kind == "RD" else "RD"] | REQ["NBI"] | REQ["NBB"]
            else:   # wait_all
                k1, k0 = REQ["COLL"], REQ["INDEP"]
            ctx[pk] = AVal("bits", k1=k1, k0=k0)
            ctx[("$vb", pk)] = fin(REQ["ZERO"])
        elif kind in ("WR", "RD", "wait") and p["n"] in VARYING_PARAMS:
            ctx[("$v", pk)] = ONE
    return frozenset(ctx.items())


def fmt_seq(s):
    return "[" + ", ".join(s) + "]" if s else "[]"


def fmt_cons(c):
    return "{" + ", ".join("%s=%s" % (a[:50], "T" if v else "F") for a, v in sorted(c)) + "}"


def check_reasoned(ctx, prog):
    """side conditions of the reasoned predicates used by R2.seq.
    ncmpio_write_numrecs: the root-side guard `new_numrecs > ncp->numrecs || NC_ndirty(ncp)` is true at every
    call (so root and the participating ranks both issue the collective write): each call site must be
    dominated by the true edge of `ncp->numrecs < X` / `X > ncp->numrecs`, or by a statement setting NC_NDIRTY."""
    ok_all = True
    n = 0
    for fn in prog.all_functions():
        for b, i, call in patterns.call_sites(fn, lambda nm: nm == "ncmpio_write_numrecs"):
            n += 1
            xk = lvalue_key(call["args"][1])
            good = False
            doms = cfg.dominators(fn).get(b.id, set())
            for d in doms:
                blk = fn.blocks[d]
                cnd = blk.cond
                if cnd is not None and cnd.get("k") == "bin" and len(blk.succs) == 2 and blk.succs[0] is not None:
                    t = blk.succs[0]
                    on_true = (t == b.id) or (t in doms)
                    a, bb = strip(cnd["a"]), strip(cnd["b"])
                    is_nr = lambda e: isinstance(e, dict) and e.get("k") == "mem" and e.get("f") == "numrecs"
                    if on_true and cnd["op"] == "<" and is_nr(a) and lvalue_key(bb) == xk:
                        good = True
                    if on_true and cnd["op"] == ">" and is_nr(bb) and lvalue_key(a) == xk:
                        good = True
            for b2, i2, e2 in fn.elements():
                for y in walk(e2):
                    if y.get("k") == "asg" and y.get("op") == "|=" and macro_of(y["b"]) == "NC_NDIRTY" and \
                            cfg.pos_dominates(fn, (b2.id, i2), (b.id, i)):
                        good = True
            inst = "%s->ncmpio_write_numrecs" % fn.name
            if good:
                ctx.ok("R2.reasoned", inst, "call dominated by numrecs < value or by set_NC_ndirty")
            else:
                ok_all = False
                ctx.fail("R2.reasoned", fn.name, "ncmpio_write_numrecs", "this call of ncmpio_write_numrecs is not known "
                         "to satisfy `value > ncp->numrecs || NC_ndirty`: under header-collective mode the root "
                         "would skip the collective write that the other ranks issue", fn=fn, line=call.get("l", 0),
                         inst=inst)
    ctx.require(n >= 6, "expected >= 6 call sites of ncmpio_write_numrecs")
    return ok_all


def check_reasoned_hdr(ctx, prog):
    """write_NC: encoding the header on the root cannot fail (it would make the root skip the collective
    header write).  Side condition: write_NC is only reached from ncmpio__enddef, after NC_begins (which
    rejects every layout the encoder cannot represent — decided under C18) returned NC_NOERR."""
    fn = ctx.need_fn(prog, "ncmpio__enddef")
    wsites = patterns.call_sites(fn, lambda n: n == "write_NC")
    bsites = patterns.call_sites(fn, lambda n: n == "NC_begins")
    others = [f.name for f in prog.all_functions() if f.name != "ncmpio__enddef"
              and patterns.call_sites(f, lambda n: n == "write_NC")]
    good = bool(wsites) and bool(bsites) and not others and all(
        any(cfg.pos_dominates(fn, (b2.id, i2), (b.id, i)) for b2, i2, c2 in bsites) for b, i, c in wsites)
    if good:
        ctx.ok("R2.reasoned", "write_NC<-ncmpio__enddef", "write_NC is reached only after NC_begins in ncmpio__enddef")
    else:
        ctx.fail("R2.reasoned", "ncmpio__enddef", "write_NC", "write_NC is no longer dominated by NC_begins (other "
                 "callers: %s): a header the encoder rejects on the root would leave the other ranks in the "
                 "collective header write" % others, fn=fn, line=fn.line)
    return good


def check_seq(ctx, prog, cg):
    eng = Engine(prog, cg, ctx)
    R = {}
    if check_reasoned(ctx, prog):
        R[("ncmpio_write_numrecs", "ncp->flags & NC_NDIRTY")] = True
    if check_reasoned_hdr(ctx, prog):
        R[("write_NC", "call:ncmpio_hdr_put_NC")] = 0
    eng.REASONED = R
    nentry = 0
    for name, kind in ENTRY:
        fn = ctx.need_fn(prog, name)
        c = entry_context(fn, kind)
        try:
            L = eng.language(fn, c)
        except Broken as e:
            raise AnalysisBroken("R2.seq: %s (entry %s)" % (e, name))
        nentry += 1
        ctx.instance("R2.seq.entry", "%s[%s]" % (name, kind), True)
    # callees reached only with rank-uniform inputs are checked once on their own
    seen = set()
    while eng.pending:
        callee, c, chain = eng.pending.pop()
        if (id(callee), c) in seen:
            continue
        seen.add((id(callee), c))
        try:
            eng.language(callee, c, chain)
        except Broken as e:
            raise AnalysisBroken("R2.seq: %s (callee %s)" % (e, callee.name))
    ctx.states += eng.visited
    # every analysed (function, context) pair is an obligation
    bad_keys = set()
    for f in eng.findings:
        fn = f["fn"]
        div = f["div"]
        s1, s2 = f["a"], f["b"]
        if div is not None:
            blk, cond, line = div
            site = seqlang.atom_norm(blk.cond)[0][:80] if blk.cond is not None else cond[:80]
        else:
            cond, line, site = "?", fn.line, "?"
        site = "%s :: %s vs %s" % (site, fmt_seq(s1), fmt_seq(s2))
        key = (fn.name, site)
        if key in bad_keys:
            continue
        bad_keys.add(key)
        val = "{" + ", ".join("%s=%s" % (a[:60], "T" if v else "F") for a, v in f["val"]) + "}"
        ctx.fail("R2.seq", fn.name, site, "the sequence of collectives depends on rank-varying data: under the "
                 "uniform valuation %s one rank can execute %s while another executes %s; deciding branch: "
                 "`%s` (line %s)" % (val, fmt_seq(s1), fmt_seq(s2), cond, line),
                 fn=fn, line=line or fn.line,
                 detail={"call_chain": list(f["chain"]) + [fn.name], "uniform_valuation": val,
                         "sequences": [list(x) for x in f["all"]], "deciding_branch": cond, "line": line})
    flagged = {k[0] for k in bad_keys}
    done = set()
    for (fname, c) in eng.fn_contexts:
        if fname in done:
            continue
        done.add(fname)
        if fname not in flagged:
            ctx.ok("R2.seq", fname, "single collective sequence per uniform valuation in every analysed context")
    ctx.note("R2.seq: %d entry points, %d (function, context) pairs, %d collective call sites, %d walker states"
             % (nentry, len(eng.fn_contexts), len(eng.sites), eng.visited))
    ctx.require(len(eng.sites) >= 60, "R2.seq saw only %d collective call sites" % len(eng.sites))
    ctx.min_instances("R2.seq", 60)
    return eng


# ---------------------------------------------------------------------------------------------
class SafeDom(UDom):
    """dispatcher wrappers with safe mode forced on and user arguments varying; tracks
    implicit flows (assignments under a varying branch are varying)."""

    SAFE_BIT = 0

    def __init__(self, fn, eng=None):
        super().__init__(fn, eng)
        self.bad = []

    NAMES = ("err", "status", "mpireturn", "minE", "nprocs", "safe_mode", "rank", "flag", "format")

    def tracked(self, key):
        if isinstance(key, tuple) and key and key[0] == "m" and key[2] == "flag":
            return True
        if isinstance(key, tuple) and key and key[0] in ("$minof", "$minlast"):
            return True
        if isinstance(key, tuple) and key and key[0] == "v":
            return key[2] in self.NAMES or key[2].startswith("root_")
        return super().tracked(key)

    def on_call(self, call, st, blk, idx):
        f = call.get("fn") or ""
        if f == "PNC_check_id":
            a = strip(call["args"][1])
            if a.get("k") == "un" and a.get("op") == "&":
                pk = lvalue_key(a["e"])
                st = st.set(("m", pk, "flag"), AVal("bits", k1=self.SAFE_BIT, k0=0))
                st = self.set_taint(st, pk, False)
            return st
        if f in seqlang.COLLECTIVES_COMM or f == "allreduce_error" or f.startswith("check_consistency"):
            st = st.set("$coll", ONE)
        if f == "MPI_Allreduce" and len(call.get("args", [])) >= 5 and macro_of(call["args"][4]) == "MPI_MIN":
            s0, r0 = strip(call["args"][0]), strip(call["args"][1])
            if s0.get("k") == "un" and r0.get("k") == "un":
                sk, rk = lvalue_key(s0["e"]), lvalue_key(r0["e"])
                if sk is not None and rk is not None:
                    st = st.set(("$minof", rk), sk)
                    st = st.set(("$minlast", rk), ONE if self.is_last_round(blk, idx) else None)
        return super().on_call(call, st, blk, idx)

    def is_last_round(self, blk, idx):
        """no further broadcast / reduction is reachable after this one: it closes the comparison protocol"""
        def coll_in(elems):
            return any(c.get("fn") in ("MPI_Bcast", "MPI_Allreduce") for e in elems for c in walk(e)
                       if c.get("k") == "call")
        if coll_in(blk.elems[idx + 1:]):
            return False
        seen = set()
        stk = [s for s in blk.succs if s is not None]
        while stk:
            b = stk.pop()
            if b in seen:
                continue
            seen.add(b)
            if coll_in(self.fn.blocks[b].elems):
                return False
            stk.extend(s for s in self.fn.blocks[b].succs if s is not None)
        return True

    def varying(self, n, st):
        m = strip_pre(n)
        if isinstance(m, dict) and m.get("k") == "call" and (m.get("fn") or "").startswith("check_consistency"):
            return False     # returns the Allreduce'd status (checked by R2.safe on that helper itself)
        if isinstance(m, dict) and m.get("k") == "call" and m.get("fn") is None:
            from callgraph import slot_of_call
            if slot_of_call(m) in ("create", "open"):
                # the driver's collective create / open agree on their status themselves (root's file test is broadcast,
                # MPI_File_open is collective, the header read agrees on its status): assumption, recorded in the evidence
                return False
        return super().varying(n, st)

    def on_assign(self, key, lhs, rhs, val, st, elem):
        st = super().on_assign(key, lhs, rhs, val, st, elem)
        if key is not None:
            # `err` was the send buffer of an earlier MPI_MIN reduction and now receives something else: "the reduced
            # status is 0, hence err was 0" no longer says anything about its new value
            for k, v in list(st.items()):
                if isinstance(k, tuple) and k and k[0] == "$minof" and v == key and k[1] != key:
                    st = st.set(k, None)
        if key is not None and key[0] == "v" and st.has("$pc") and st.get("$pc"):
            st = self.set_taint(st, key, True)
        r = strip_pre(rhs) if rhs is not None else None
        if key is not None and isinstance(r, dict) and r.get("k") == "call" and \
                ((r.get("fn") or "").startswith("check_consistency") or r.get("fn") == "allreduce_error"):
            # the helper returns the MIN-reduced status: zero means every rank passed and agreed
            st = st.set(("$minof", key), key)
            st = st.set(("$minlast", key), ONE)
            st = self.set_taint(st, key, False)
        return st

    def branch(self, blk, st):
        out = ValueDomain.branch(self, blk, st)
        c = blk.cond
        if c is not None and len(out) > 1 and self.varying(c, st):
            j = patterns.ipdom(self.fn, blk.id)
            if j is not None and j != self.fn.exit:      # early-return guards are R2.seq's business
                pc = st.get("$pc", None) or frozenset()
                pc = frozenset(pc) | {j}
                out = [(succ, s2.set("$pc", pc)) for succ, s2 in out]
        # x == y with y rank-uniform makes x rank-uniform on the equal edge
        if c is not None and c.get("k") == "bin" and c.get("op") in ("==", "!=") and len(blk.succs) == 2:
            eq_succ = blk.succs[0] if c["op"] == "==" else blk.succs[1]
            ka, kb = lvalue_key(c["a"]), lvalue_key(c["b"])
            new = []
            for succ, s2 in out:
                if succ == eq_succ and blk.succs[0] != blk.succs[1]:
                    va, vb = self.varying(c["a"], st), self.varying(c["b"], st)
                    if va and not vb and ka is not None:
                        s2 = self.set_taint(s2, ka, False)
                    elif vb and not va and kb is not None:
                        s2 = self.set_taint(s2, kb, False)
                new.append((succ, s2))
            out = new
        # minE == NC_NOERR after MPI_Allreduce(&err, &minE, MIN): every rank's err is NC_NOERR and the
        # safe-mode protocol has found the arguments consistent
        res = []
        for succ, s2 in out:
            for k, v in list(s2.items()):
                if isinstance(k, tuple) and k and k[0] == "$minof" and s2.has(k[1]) and s2.get(k[1]).must_be(0):
                    s2 = s2.set(v, ZERO)
                    s2 = self.set_taint(s2, v, False)
                    if s2.has(("$minlast", k[1])):
                        # the last comparison round passed: the arguments (and everything computed from
                        # them so far) are known consistent across ranks
                        s2 = s2.drop(lambda kk: isinstance(kk, tuple) and kk and kk[0] in ("$v", "$vb"))
                        s2 = s2.set(("$minlast", k[1]), None)
                    s2 = s2.set(k, None)
            res.append((succ, s2))
        return res

    def on_elem(self, elem, st, blk, idx):
        pc = st.get("$pc", None)
        if pc and idx == 0 and blk.id in pc:
            npc = frozenset(x for x in pc if x != blk.id)
            st = st.set("$pc", npc if npc else None)
        if elem.get("k") == "ret" and elem.get("e") is not None and st.has("$coll"):
            v = self.eval(elem["e"], st)
            if v.may_be_nonzero() and (self.varying(elem["e"], st) or (st.get("$pc", None))):
                self.bad.append((elem, st))
        return st


def check_safe(ctx, prog):
    safe_bit = None
    for u in prog.units.values():
        if "NC_MODE_SAFE" in u.macros:
            try:
                safe_bit = int(u.macros["NC_MODE_SAFE"].strip("() "), 0)
            except ValueError:
                pass
            break
    ctx.require(safe_bit, "macro NC_MODE_SAFE not found")
    n = 0
    for fn in sorted(prog.all_functions(), key=lambda f: f.name):
        if fn.static and not (fn.name.startswith("check_consistency")):
            continue
        if not (fn.name.startswith("ncmpi_") or fn.name.startswith("check_consistency")):
            continue
        if "var_getput" in fn.unit.name:
            continue
        # wrappers that test the safe-mode bit
        uses_safe = any("NC_MODE_SAFE" in x.get("m", ()) for b, i, e in fn.elements() for x in walk(e, into_pre=True))
        if not uses_safe and not fn.name.startswith("check_consistency"):
            continue
        has_coll = any(c.get("fn") in seqlang.COLLECTIVES_COMM or (c.get("fn") or "").startswith("check_consistency")
                       or c.get("fn") == "allreduce_error"
                       for b, i, e in fn.elements() for c in walk(e) if c.get("k") == "call")
        if not has_coll:
            continue
        n += 1
        ctx.functions_analysed.add((fn.unit.name, fn.name))
        dom = SafeDom(fn)
        dom.SAFE_BIT = safe_bit
        init = State()
        for p in fn.params:
            if p["n"] in ("ncid", "comm", "pncp", "path", "info", "ncidp"):
                continue     # file name / info consistency is delegated to MPI-IO (MPI_ERR_NOT_SAME)
            init = dom.set_taint(init, ("v", p["id"], p["n"]), True)
        try:
            ex = Explorer(fn, dom, max_states=1500000).run(init)
        except Budget as e:
            raise AnalysisBroken(str(e))
        ctx.states += ex.visited
        if dom.bad:
            elem, st = dom.bad[0]
            ctx.fail("R2.safe", fn.name, "return", "with safe mode on, `%s` (line %s) returns a value that depends on "
                     "this rank's own arguments after a collective: processes that disagree get different error "
                     "codes" % (show(elem)[:60], elem.get("l")), fn=fn, line=elem.get("l", fn.line))
        else:
            ctx.ok("R2.safe", fn.name, "every non-zero return after a collective is Allreduce/Bcast-derived")
    ctx.assume("R2.safe: the status returned by the driver's collective create / open is the same on every process (the driver "
               "agrees on it itself)")
    ctx.min_instances("R2.safe", 12)


# ---------------------------------------------------------------------------------------------
class ZeroDom(ValueDomain):
    """driver data API explored with NC_REQ_ZERO | NC_REQ_COLL set."""
    PTRS = ("start", "count", "stride", "imap", "buf", "starts", "counts")

    def __init__(self, fn):
        super().__init__(fn)
        self.bad = []

    def tracked(self, key):
        if isinstance(key, str):
            return True
        if key[0] == "v":
            v = self.fn.vars.get(key[1])
            return v is not None and self.fn.type(v["t"]).get("k") in ("int", "uint", "enum", "ptr")
        return False

    def on_elem(self, elem, st, blk, idx):
        for x in walk(elem):
            k = x.get("k")
            target = None
            if k == "idx":
                target = strip(x.get("b"))
                iv = strip(x.get("i"))
                if isinstance(iv, dict) and iv.get("k") == "ref" and iv.get("n") == "varid" and iv.get("dk") == "param":
                    self.bad.append((x, "indexes by varid"))
            elif k == "un" and x.get("op") == "*":
                target = strip(x.get("e"))
            if isinstance(target, dict) and target.get("k") == "ref" and target.get("dk") == "param" \
                    and target.get("n") in self.PTRS:
                self.bad.append((x, "dereferences %s" % target["n"]))
        return st


def check_zero(ctx, prog):
    for name in ("ncmpio_put_var", "ncmpio_get_var", "ncmpio_put_varn", "ncmpio_get_varn", "ncmpio_put_vard",
                 "ncmpio_get_vard"):
        fn = ctx.need_fn(prog, name)
        dom = ZeroDom(fn)
        init = State()
        for p in fn.params:
            if p["n"] == "reqMode":
                init = init.set(("v", p["id"], "reqMode"),
                                AVal("bits", k1=REQ["ZERO"] | REQ["COLL"], k0=REQ["INDEP"]))
        ex = Explorer(fn, dom).run(init)
        ctx.states += ex.visited
        if dom.bad:
            x, why = dom.bad[0]
            ctx.fail("R2.zero", name, "deref", "on the NC_REQ_ZERO path %s() %s (`%s`): the dispatcher passes invalid "
                     "arguments there" % (name, why, show(x)[:40]), fn=fn, line=x.get("l", fn.line))
        else:
            ctx.ok("R2.zero", name, "no use of start/count/stride/buf/varid with NC_REQ_ZERO|NC_REQ_COLL set")


def run(ctx):
    ctx.rule("R2.seq", "per collective entry point and uniform valuation, a single sequence of MPI collectives over "
             "all outcomes of rank-varying branches (languages computed bottom-up over the call graph with context "
             "= constant/uniform arguments; loops with collectives need a uniform trip condition)")
    ctx.rule("R2.reasoned", "side conditions of predicates that R2.seq treats as constant (root-side guard of "
             "ncmpio_write_numrecs) are re-verified at every call site; if one fails the predicate is not used")
    ctx.rule("R2.safe", "safe mode: non-zero returns after a collective are rank-uniform (implicit flows tracked)")
    ctx.rule("R2.zero", "NC_REQ_ZERO path never touches start/count/stride/buf/varid")
    ctx.assume("obligations are stated for nprocs > 1; MPI communication calls succeed; MPI-IO calls may fail "
               "(their result is rank-varying)")
    ctx.assume("replicated header state (struct NC/PNC fields other than the listed varying ones) is identical on "
               "all ranks; arguments of metadata APIs are consistent outside safe mode")
    ctx.assume("point-to-point traffic and sub-communicators of the intra-node aggregation layer are out of scope; "
               "implicit flows are tracked only by R2.safe")
    prog = ctx.program(groups=["lib"])
    cg = CallGraph(prog)
    check_seq(ctx, prog, cg)
    check_safe(ctx, prog)
    check_zero(ctx, prog)
