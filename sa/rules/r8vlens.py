"""R8.vlens — ncmpio_NC_check_vlens(), the "at most one too-large variable, and only in the last position of its kind"
rule of the classic formats, evaluated whole by the analyser for every list of up to 4 variables, each fixed-size or
record and small or too large, in the three formats (1020 cases), against the rule as the property states it:
CDF-5 accepts no too-large variable; CDF-1/2 accept at most one too-large fixed-size variable, which must be the last
fixed-size variable with no record variable in the file, and at most one too-large record variable, which must be the
last record variable - where "last of its kind" does not depend on variables of the other kind defined after it."""
import itertools
import concrete
from frontend import AnalysisBroken

KINDS = ("fs", "fL", "rs", "rL")     # fixed small / fixed too large / record small / record too large


def model(fmt, lst):
    fixed = [k for k in lst if k[0] == "f"]
    rec = [k for k in lst if k[0] == "r"]
    nlf = sum(1 for k in fixed if k[1] == "L")
    nlr = sum(1 for k in rec if k[1] == "L")
    if not lst:
        return True
    if fmt >= 5:
        return nlf == 0 and nlr == 0
    if nlf > 1 or (nlf == 1 and fixed[-1][1] != "L"):
        return False
    if nlf == 1 and rec:
        return False
    if nlr > 1 or (nlr == 1 and rec[-1][1] != "L"):
        return False
    return True


def check(ctx, fn, rule, evarsize):
    cells = 0
    bad = None
    for fmt in (1, 2, 5):
        for n in range(0, 5):
            for lst in itertools.product(KINDS, repeat=n):
                env = {"$dyn": True, "ncp->format": fmt, "ncp->vars.ndefined": n}
                large = {}
                for i, k in enumerate(lst):
                    env["ncp->vars.value[%d]" % i] = ("P", "V", i)
                    env["V[%d].shape" % i] = ("P", "S%d" % i, 0)
                    env["S%d[0]" % i] = 0 if k[0] == "r" else 7
                    large[i] = (k[1] == "L")
                env["$impl"] = {"ncmpio_NC_check_vlen": lambda v, m, large=large: 0 if large[v[2]] else 1}
                try:
                    concrete.run_region(fn, (fn.entry, 0), set(), env, max_steps=600)
                except concrete.Unsupported as u:
                    raise AnalysisBroken("%s is no longer interpretable: %s" % (fn.name, u))
                except KeyError as u:
                    raise AnalysisBroken("%s reads an unbound location %s" % (fn.name, u))
                cells += 1
                got = env.get("$ret")
                want = 0 if model(fmt, lst) else evarsize
                if got != want and bad is None:
                    bad = (fmt, list(lst), got, want)
    inst = "%s:lists" % fn.name
    names = {"fs": "fixed", "fL": "fixed TOO LARGE", "rs": "record", "rL": "record TOO LARGE"}
    if bad:
        ctx.fail(rule, fn.name, "lists", "CDF-%d, variables in definition order [%s]: returns %s, the format rule gives %s" % (
            bad[0], ", ".join(names[k] for k in bad[1]), bad[2], bad[3]), fn=fn, line=fn.line, inst=inst)
    else:
        ctx.ok(rule, inst, "%d (format, variable list) cases agree with the format rule" % cells)
    return cells
