"""R2 — collective-sequence determinism.

For a function F and a calling context C (abstract values and uniformity of the
parameters) the engine computes the language of collective-event sequences

    L(F, C) = { (uniform valuation, sequence of events) }

by a path-sensitive walk of the CFG:
  * a branch whose condition is decided by the abstract state is followed one way;
  * a branch on a UNIFORM atom (same on every rank) splits into two valuations;
  * a branch on a VARYING condition (rank, user arguments, request queues, error
    codes derived from them, I/O faults) unions the languages of both sides.
Calls to functions that contain collectives are expanded with the callee's own
language under the context derived from the arguments.  Loops are summarised
(havoc of the variables they assign; a loop that contains collectives must have a
uniform trip condition and becomes one token).

The property is violated when two entries of L(F, C) have compatible uniform
valuations but different sequences: some assignment of per-rank data makes two
ranks execute different sequences of collectives.
"""
from absint import ValueDomain, State, AVal, TOP, ZERO, ONE, NONZERO, fin, join
from facts import walk, strip, strip_pre, const_value, show, canon, lvalue_key, macro_of, key_mentions, children
import patterns
import cfg

COLLECTIVES_COMM = {"MPI_Allreduce", "MPI_Bcast", "MPI_Barrier", "MPI_Reduce", "MPI_Gather", "MPI_Gatherv",
                    "MPI_Allgather", "MPI_Allgatherv", "MPI_Scatter", "MPI_Scatterv", "MPI_Alltoall",
                    "MPI_Alltoallv", "MPI_Comm_dup", "MPI_Comm_split", "MPI_Comm_split_type", "MPI_Comm_free",
                    "MPI_Exscan", "MPI_Scan"}
COLLECTIVES_FILE = {"MPI_File_open", "MPI_File_close", "MPI_File_set_view", "MPI_File_set_size", "MPI_File_sync",
                    "MPI_File_read_all", "MPI_File_read_at_all", "MPI_File_write_all", "MPI_File_write_at_all",
                    "MPI_File_preallocate", "MPI_File_set_info", "MPI_File_set_atomicity",
                    "MPI_File_read_all_c", "MPI_File_read_at_all_c", "MPI_File_write_all_c",
                    "MPI_File_write_at_all_c"}
FH_COLL, FH_INDEP = -1001, -1002
SELF_COMM = -2001

# struct NC fields that are NOT replicated state (everything else of NC / PNC /
# the header object records is treated as uniform)
NC_VARYING = {"rank", "put_size", "get_size", "independent_fh", "maxGetReqID", "maxPutReqID",
              "numLeadGetReqs", "numLeadPutReqs", "numGetReqs", "numPutReqs", "get_list", "put_list",
              "get_lead_list", "put_lead_list", "abuf", "my_aggr", "num_nonaggrs", "nonaggr_ranks",
              "isAggr", "aggregation"}
VARYING_RECS = {"NC_lead_req", "NC_req", "NC_buf", "NC_buf_status", "off_len", "bufferinfo_rank"}
VARYING_FLAG_BITS = {"NC_HDIRTY"}
MAXLANG = 400


class Broken(Exception):
    pass


class UDom(ValueDomain):
    """values + uniformity taint.  ('$v', key) present <=> variable is rank-varying;
    ('$vb', key) = fin{mask}: only these bits of the variable are varying."""

    def __init__(self, fn, eng):
        super().__init__(fn)
        self.eng = eng

    def tracked(self, key):
        if isinstance(key, str):
            return True
        if key[0] in ("$v", "$vb"):
            return True
        if key[0] == "v":
            v = self.fn.vars.get(key[1])
            if v is None:
                return False
            t = self.fn.type(v["t"])
            return t.get("k") in ("int", "uint", "enum", "ptr")
        if key[0] == "m" and key[2] in ("nprocs", "safe_mode", "format"):
            return True
        if key[0] == "i" and isinstance(key[2], int) and isinstance(key[1], tuple) and key[1][0] == "v":
            return True
        if key[0] in ("$o", "$def"):
            return True
        return False

    # -- values ---------------------------------------------------------------------
    def eval(self, n, st):
        m = strip_pre(n)
        if isinstance(m, dict):
            if m.get("k") == "mem":
                if m.get("f") == "collective_fh":
                    return fin(FH_COLL)
                if m.get("f") == "independent_fh":
                    return fin(FH_INDEP)
                if m.get("f") == "nprocs" and m.get("rec") in ("NC", "PNC"):
                    return fin(2)      # obligations are stated for more than one process
            mm = macro_of(n)
            if mm == "MPI_COMM_SELF":
                return fin(SELF_COMM)
        return super().eval(n, st)

    def call_value(self, call, st):
        f = call.get("fn") or ""
        if f == "ncmpii_error_mpi2nc":
            return NONZERO
        if f.startswith("MPI_"):
            return ZERO       # R2.seq assumes MPI calls return MPI_SUCCESS (I/O faults are C11's subject)
        if f.startswith(("NCI_Malloc", "NCI_Calloc", "NCI_Realloc", "NCI_Strdup")) or f in ("malloc", "calloc", "strdup"):
            return NONZERO    # assume_alloc_ok
        if self.eng is not None:
            c = self.eng.const_return(self.fn, f)
            if c is not None:
                return fin(c)
            r = self.eng.reasoned(self.fn.name, "call:" + f)
            if r is not None:
                return fin(r)
        return TOP

    # -- taint ------------------------------------------------------------------------
    def varying(self, n, st):
        n = strip_pre(n)
        if not isinstance(n, dict):
            return False
        if "cv" in n or "fv" in n:
            return False
        k = n.get("k")
        if k == "ref":
            key = lvalue_key(n)
            if key is None:
                return False
            if key[0] == "g":
                return False
            return st.has(("$v", key)) or st.has(("$vb", key))
        if k == "mem":
            rec, f = n.get("rec"), n.get("f")
            if rec == "NC" and f in NC_VARYING:
                return True
            if rec in VARYING_RECS:
                return True
            return self.varying(n.get("b"), st)
        if k == "idx":
            return self.varying(n.get("b"), st) or self.varying(n.get("i"), st)
        if k == "un":
            return self.varying(n.get("e"), st)
        if k == "cast":
            return self.varying(n.get("e"), st)
        if k == "bin":
            if n.get("op") == "&":
                # flag tests: only some bits may be varying
                for x, y in ((n["a"], n["b"]), (n["b"], n["a"])):
                    mask = const_value(y)
                    if mask is None:
                        continue
                    sx = strip_pre(x)
                    key = lvalue_key(sx)
                    if key is not None and st.has(("$vb", key)):
                        vb = st.get(("$vb", key)).single() or 0
                        return bool(vb & mask)
                    if isinstance(sx, dict) and sx.get("k") == "mem" and sx.get("f") in ("flags", "flag") \
                            and sx.get("rec") in ("NC", "PNC"):
                        mm = macro_of(y)
                        if mm in VARYING_FLAG_BITS:
                            return True
                        return self.varying(sx.get("b"), st)
            return self.varying(n.get("a"), st) or self.varying(n.get("b"), st)
        if k == "cond":
            return self.varying(n.get("c"), st) or self.varying(n.get("a"), st) or self.varying(n.get("b"), st)
        if k == "call":
            f = n.get("fn") or ""
            if f in ("allreduce_error",):
                return False
            return any(self.varying(a, st) for a in n.get("args", []))
        if k == "asg":
            return self.varying(n.get("b"), st)
        if k in ("sizeof", "str", "int", "char", "float"):
            return False
        return any(self.varying(c, st) for c in children(n))

    def set_taint(self, st, key, var, bits=None):
        st = st.set(("$v", key), ONE if (var and bits is None) else None)
        st = st.set(("$vb", key), fin(bits) if (var and bits is not None) else None)
        return st

    def on_assign(self, key, lhs, rhs, val, st, elem):
        pc = bool(st.get("$pc", None))
        if key is not None and key[0] in ("i", "d") and (rhs is not None or pc):
            # store into an element of a local array / through a local pointer: the contents become
            # rank-varying if the stored value is (or if the store is controlled by a varying branch)
            base = key
            while isinstance(base, tuple) and base[0] in ("i", "d", "m"):
                base = base[1]
            if isinstance(base, tuple) and base[0] == "v":
                v = self.fn.vars.get(base[1])
                if v is not None and v in self.fn.locals:
                    if rhs is not None and self.varying(rhs, st):
                        return self.set_taint(st, base, True)
                    if pc:
                        return st.set("$pcw", frozenset(st.get("$pcw", None) or ()) | {base})
            return st
        if key is None or key[0] != "v":
            return st
        if elem is not None and elem.get("l"):
            st = st.set(("$def", key), fin(elem["l"]))
        var = self.varying(rhs, st) if rhs is not None else False
        if pc:
            # implicit flow: assigned under a rank-varying branch -> rank-varying from the join on
            st = st.set("$pcw", frozenset(st.get("$pcw", None) or ()) | {key})
        # reqMode-style words: x = y where y has only some varying bits
        bits = None
        r = strip_pre(rhs) if rhs is not None else None
        rk = lvalue_key(r) if isinstance(r, dict) else None
        if rk is not None and st.has(("$vb", rk)):
            bits = st.get(("$vb", rk)).single()
        if elem is not None and elem.get("k") == "asg" and elem.get("op") != "=":
            # compound: keeps earlier taint
            if st.has(("$v", key)):
                var, bits = True, None
            elif st.has(("$vb", key)):
                old = st.get(("$vb", key)).single() or 0
                m = const_value(elem.get("b"))
                if elem.get("op") == "|=" and m is not None and not var:
                    return st      # setting constant bits does not add varying bits
                var, bits = True, None if var else old
        return self.set_taint(st, key, var, bits)

    def on_call(self, call, st, blk, idx):
        f = call.get("fn") or ""
        args = call.get("args", [])
        # out-parameters
        for i, a in enumerate(args):
            sa = strip(a)
            if not (isinstance(sa, dict) and sa.get("k") == "un" and sa.get("op") == "&"):
                continue
            key = lvalue_key(sa["e"])
            if key is None or key[0] != "v":
                continue
            if f == "MPI_Comm_rank":
                st = self.set_taint(st, key, True)
            elif f == "MPI_Comm_size":
                comm = self.eval(args[0], st)
                st = self.set_taint(st, key, False)
                st = st.set(key, fin(1) if comm.must_be(SELF_COMM) else fin(2))
            elif f in ("MPI_Allreduce", "MPI_Bcast", "MPI_Allgather", "MPI_Allgatherv") and \
                    ((f == "MPI_Allreduce" and i == 1) or (f == "MPI_Bcast" and i == 0) or
                     (f.startswith("MPI_Allgather") and i == 3)):
                st = self.set_taint(st, key, False)
                st = st.set(("$c", key), fin(1))      # holds the result of a collective: the same value on every rank
            elif f == "MPI_Allreduce" and i == 0:
                pass
            else:
                v = any(self.varying(x, st) for x in args if x is not a) or f in ("MPI_Get_count",)
                st = self.set_taint(st, key, v)
        if f == "MPI_Allreduce" and len(args) > 1:
            # in-place / array receive buffers become uniform
            r = strip(args[1])
            if isinstance(r, dict) and r.get("k") == "ref":
                k = lvalue_key(r)
                if k is not None:
                    st = self.set_taint(st, k, False)
        if f == "MPI_Bcast" and args:
            r = strip(args[0])
            if isinstance(r, dict) and r.get("k") == "ref":
                k = lvalue_key(r)
                if k is not None:
                    st = self.set_taint(st, k, False)
        from absint import allreduce_min_effect
        return allreduce_min_effect(self, call, st)

    def keep_addr_arg(self, call, key, st=None):
        if call.get("fn") == "MPI_Comm_size":
            return True
        if call.get("fn") == "MPI_Bcast":
            return False     # after a broadcast every rank holds the root's (unknown) value
        return super().keep_addr_arg(call, key, st)


def compatible(c1, c2):
    d = dict(c1)
    for a, v in c2:
        if a in d and d[a] != v:
            return False
    return True


def add_constraint(c, atom, val):
    for a, v in c:
        if a == atom:
            return c if v == val else None
    return c | frozenset(((atom, val),))



# ---------------------------------------------------------------------------
# Languages as reduced ordered decision diagrams over uniform atoms.
#   leaf  : ("L", frozenset of sequences)      (more than one sequence = the ranks may diverge)
#   node  : ("N", atom_index, lo, hi)          (lo: atom false, hi: atom true)
# Diagrams are hash-consed tuples; lo == hi collapses, so atoms that do not influence the
# collectives never appear.
# ---------------------------------------------------------------------------
class DD:
    """hash-consed diagrams: every node/leaf is a small integer."""

    def __init__(self):
        self.atoms = {}
        self.names = []
        self.cache = {}
        self.nodes = []          # id -> ("L", frozenset(seq ids)) | ("N", atom, lo, hi)
        self.uniq = {}
        self.seqs = []           # seq id -> tuple of event names
        self.seq_ids = {}
        self.cat = {}
        self.EMPTY = self.leaf_ids(frozenset())
        self.EPS = self.leaf(((),))

    # --- sequences ---------------------------------------------------------------------
    def seq_id(self, t):
        i = self.seq_ids.get(t)
        if i is None:
            i = len(self.seqs)
            self.seqs.append(t)
            self.seq_ids[t] = i
        return i

    def seq_cat(self, i, j):
        k = self.cat.get((i, j))
        if k is None:
            k = self.seq_id(self.seqs[i] + self.seqs[j])
            self.cat[(i, j)] = k
        return k

    # --- nodes -------------------------------------------------------------------------
    def _intern(self, key):
        i = self.uniq.get(key)
        if i is None:
            i = len(self.nodes)
            self.nodes.append(key)
            self.uniq[key] = i
        return i

    def atom(self, name):
        if name not in self.atoms:
            self.atoms[name] = len(self.names)
            self.names.append(name)
        return self.atoms[name]

    def leaf_ids(self, ids):
        return self._intern(("L", frozenset(ids)))

    def leaf(self, seqs):
        return self.leaf_ids(frozenset(self.seq_id(tuple(x)) for x in seqs))

    def is_leaf(self, d):
        return self.nodes[d][0] == "L"

    def node(self, a, lo, hi):
        if lo == hi:
            return lo
        return self._intern(("N", a, lo, hi))

    def restrict(self, d, a, val):
        n = self.nodes[d]
        if n[0] == "L":
            return d
        key = ("r", d, a, val)
        r = self.cache.get(key)
        if r is not None:
            return r
        if n[1] == a:
            r = self.restrict(n[3] if val else n[2], a, val)
        elif n[1] > a:
            r = d
        else:
            r = self.node(n[1], self.restrict(n[2], a, val), self.restrict(n[3], a, val))
        self.cache[key] = r
        return r

    def ite(self, a, hi, lo):
        """diagram that behaves like hi where atom a is true and like lo where it is false"""
        hi = self.restrict(hi, a, True)
        lo = self.restrict(lo, a, False)
        return self._mk(a, lo, hi)

    def _top(self, d):
        n = self.nodes[d]
        return n[1] if n[0] == "N" else None

    def _cof(self, d, t):
        n = self.nodes[d]
        if n[0] == "N" and n[1] == t:
            return n[2], n[3]
        return d, d

    def _mk(self, a, lo, hi):
        tops = [t for t in (self._top(lo), self._top(hi)) if t is not None]
        if not tops or a < min(tops):
            return self.node(a, lo, hi)
        key = ("m", a, lo, hi)
        r = self.cache.get(key)
        if r is not None:
            return r
        t = min(tops)
        l0, l1 = self._cof(lo, t)
        h0, h1 = self._cof(hi, t)
        r = self.node(t, self._mk(a, l0, h0), self._mk(a, l1, h1))
        self.cache[key] = r
        return r

    def apply(self, f, fname, x, y):
        key = (fname, x, y)
        r = self.cache.get(key)
        if r is not None:
            return r
        tx, ty = self._top(x), self._top(y)
        if tx is None and ty is None:
            r = f(x, y)
        else:
            t = min(v for v in (tx, ty) if v is not None)
            x0, x1 = self._cof(x, t)
            y0, y1 = self._cof(y, t)
            r = self.node(t, self.apply(f, fname, x0, y0), self.apply(f, fname, x1, y1))
        self.cache[key] = r
        return r

    def union(self, x, y):
        if x == y or y == self.EMPTY:
            return x
        if x == self.EMPTY:
            return y
        if x > y:
            x, y = y, x
        return self.apply(lambda a, b: self.leaf_ids(self.nodes[a][1] | self.nodes[b][1]), "u", x, y)

    def concat(self, x, y):
        if x == self.EPS:
            return y
        if y == self.EPS:
            return x

        def f(a, b):
            A, B = self.nodes[a][1], self.nodes[b][1]
            if len(A) * len(B) > 4000:
                raise Broken("sequence set explosion")
            return self.leaf_ids(frozenset(self.seq_cat(i, j) for i in A for j in B))
        return self.apply(f, "c", x, y)

    def map_leaves(self, d, fn, tag):
        """fn: set of sequences (tuples) -> iterable of sequences"""
        key = (tag, d)
        r = self.cache.get(key)
        if r is not None:
            return r
        n = self.nodes[d]
        if n[0] == "L":
            r = self.leaf(fn({self.seqs[i] for i in n[1]}))
        else:
            r = self.node(n[1], self.map_leaves(n[2], fn, tag), self.map_leaves(n[3], fn, tag))
        self.cache[key] = r
        return r

    def seqs_of(self, leaf):
        return {self.seqs[i] for i in self.nodes[leaf][1]}

    def leaves(self, d, path=(), limit=200000):
        """[(valuation as tuple of (atom name, bool), set of sequences)] — distinct leaves once each"""
        out = []
        seen = set()

        def rec(x, p):
            n = self.nodes[x]
            if n[0] == "L":
                if x not in seen:
                    seen.add(x)
                    out.append((p, {self.seqs[i] for i in n[1]}))
                return
            if (x, "v") in seen or len(out) > limit:
                return
            seen.add((x, "v"))
            rec(n[2], p + ((self.names[n[1]], False),))
            rec(n[3], p + ((self.names[n[1]], True),))
        rec(d, ())
        return out

    def size(self, d):
        seen = set()
        st = [d]
        while st:
            x = st.pop()
            if x in seen:
                continue
            seen.add(x)
            n = self.nodes[x]
            if n[0] == "N":
                st.append(n[2])
                st.append(n[3])
        return len(seen)


class Engine:
    def __init__(self, prog, cg, ctx=None):
        self.prog = prog
        self.cg = cg
        self.ctx = ctx
        self.dd = DD()
        self.memo = {}          # (fn id, context) -> diagram
        self.inprog = set()
        self.findings = []
        self.has_coll = {}
        self.visited = 0
        self.sites = set()      # collective call sites seen
        self.pending = []       # (callee, uniform context, chain) to be checked on their own
        self.fn_contexts = set()
        self._cp = {}

    def collective_fn(self, name):
        if name in self.has_coll:
            return self.has_coll[name]
        self.has_coll[name] = False
        res = False
        for fn in self.prog.fns(name):
            for (b, i, c, names) in self.cg.calls.get(fn, []):
                f = c.get("fn")
                if f in COLLECTIVES_COMM or f in COLLECTIVES_FILE:
                    res = True
                for n in names:
                    if n != name and self.prog.fns(n) and self.collective_fn(n):
                        res = True
        self.has_coll[name] = res
        return res

    def cond_params(self, fn):
        """parameters whose value can steer the callee: used in a branch condition, passed on to another
        function, or used as a handle / communicator"""
        if id(fn) in self._cp:
            return self._cp[id(fn)]
        names = {p["n"] for p in fn.params}
        rel = set()
        for blk in fn.blocks.values():
            c = blk.cond
            if c is not None:
                for x in walk(c, into_pre=True):
                    if x.get("k") == "ref" and x.get("n") in names:
                        rel.add(x["n"])
        for b, i, e in fn.elements():
            for x in walk(e):
                if x.get("k") == "call":
                    for a in x.get("args", []):
                        sa = strip(a)
                        if isinstance(sa, dict) and sa.get("k") == "ref" and sa.get("n") in names:
                            t = fn.type(sa.get("t"))
                            if t.get("k") in ("int", "uint", "enum") or "MPI_File" in t.get("s", "") \
                                    or "MPI_Comm" in t.get("s", ""):
                                rel.add(sa["n"])
        self._cp[id(fn)] = rel
        return rel

    def const_return(self, caller, name):
        """the constant a function returns on every path, if it is one (e.g. ncmpix_put_uint32 -> NC_NOERR)"""
        key = ("cr", name)
        if key in self._cp:
            return self._cp[key]
        res = None
        callee = self.prog.resolve_call(caller, name) if name else None
        if callee is not None and callee.blocks:
            vals = set()
            for b, i, e in callee.elements():
                if e.get("k") == "ret":
                    vals.add(const_value(e.get("e")) if e.get("e") is not None else "void")
            if len(vals) == 1 and None not in vals and "void" not in vals:
                res = next(iter(vals))
        self._cp[key] = res
        return res

    REASONED = {}

    def reasoned(self, fname, text):
        return self.REASONED.get((fname, text))

    def language(self, fn, context, chain=()):
        key = (id(fn), context)
        if key in self.memo:
            return self.memo[key]
        if key in self.inprog or len(chain) > 12:
            return self.dd.EPS
        self.inprog.add(key)
        self.fn_contexts.add((fn.name, context))
        dom = UDom(fn, self)
        st = State(dict(context))
        walker = Walker(self, fn, dom, chain + (fn.name,))
        D = walker.lang(fn.entry, 0, st)
        D = self.check(fn, D, walker, chain)
        self.inprog.discard(key)
        self.memo[key] = D
        return D

    def check(self, fn, D, walker, chain):
        """a leaf with more than one sequence = two ranks may execute different collectives
        under that uniform valuation.  Returns a deterministic diagram for the callers."""
        bad = None
        for val, seqs in self.dd.leaves(D):
            if len(seqs) > 1:
                bad = (val, seqs)
                break
        if bad is None:
            return D
        val, seqs = bad
        ss = sorted(seqs, key=lambda x: (len(x), str(x)))
        div = walker.divergences[0] if walker.divergences else None
        self.findings.append({"fn": fn, "val": val, "a": ss[0], "b": ss[-1], "all": ss[:6], "div": div,
                              "chain": chain})
        return self.dd.map_leaves(D, lambda S: {max(S, key=lambda x: (len(x), str(x)))} if S else S, "canon")


class Walker:
    def __init__(self, eng, fn, dom, chain):
        self.eng = eng
        self.dd = eng.dd
        self.fn = fn
        self.dom = dom
        self.chain = chain
        self.memo = {}
        self.stack = set()
        self.divergences = []    # (block, cond text, line)
        self.loops = {}
        for lp in patterns.loops(fn):
            self.loops[lp.head.id] = lp
        self.loop_events = {}
        self.back_head = None
        self.block_states = {}
        self.stable, self.aliases = stable_locals(fn)

    # --- events --------------------------------------------------------------------------
    def event_of(self, call, st):
        f = call.get("fn")
        args = call.get("args", [])
        if f in COLLECTIVES_COMM:
            ci = {"MPI_Bcast": 4, "MPI_Barrier": 0, "MPI_Allreduce": 5, "MPI_Reduce": 6, "MPI_Comm_dup": 0,
                  "MPI_Comm_free": None, "MPI_Gather": 7, "MPI_Allgather": 6, "MPI_Gatherv": 8,
                  "MPI_Allgatherv": 7, "MPI_Comm_split": 0}.get(f, len(args) - 1)
            if ci is not None and 0 <= ci < len(args):
                cv = self.dom.eval(args[ci], st)
                if cv.must_be(SELF_COMM):
                    return None
                cs = show(args[ci])
                if "node" in cs or "aggr" in cs or "ina_" in cs:
                    return None     # sub-communicators of the aggregation layer: outside the scope of R2
            return f
        if f in COLLECTIVES_FILE:
            if f == "MPI_File_open":
                cv = self.dom.eval(args[0], st) if args else TOP
                return None if cv.must_be(SELF_COMM) else f
            if f == "MPI_File_close":
                a = strip(args[0]) if args else None
                if isinstance(a, dict) and a.get("k") == "un":
                    if self.dom.eval(a["e"], st).must_be(FH_INDEP):
                        return None
                return f
            hv = self.dom.eval(args[0], st) if args else TOP
            if hv.must_be(FH_INDEP):
                return None
            # explicit-offset and file-pointer forms of a collective transfer match each other (the library
            # pairs MPI_File_write_all on the zero-length path with MPI_File_write_at_all elsewhere)
            return f.replace("_at_all", "_all").replace("_all_c", "_all")
        return None

    # --- language from a program point ------------------------------------------------------
    KSTATES = 12

    def widen(self, b, st):
        """bound path sensitivity: once a block has been entered with KSTATES distinct abstract
        states, further arrivals keep only the facts common to all of them (sound: fewer facts
        means more paths)."""
        rec = self.block_states.setdefault((b, self.back_head), {"n": 0, "common": None, "seen": set(), "taint": {}})
        if st in rec["seen"]:
            return st
        vals = frozenset((k, v) for k, v in st.items() if not (isinstance(k, tuple) and k and k[0] in ("$v", "$vb")))
        for k, v in st.items():
            if isinstance(k, tuple) and k and k[0] in ("$v", "$vb"):
                # a variable that is varying on some path is treated as varying after widening
                rec["taint"][("$v", k[1])] = ONE
        if rec["n"] < self.KSTATES:
            rec["n"] += 1
            rec["seen"].add(st)
            rec["common"] = vals if rec["common"] is None else (rec["common"] & vals)
            return st
        rec["common"] = rec["common"] & vals
        keep = dict(rec["common"])
        keep.update(rec["taint"])
        return State(keep)

    def lang(self, b, i, st):
        if i == 0:
            pc = st.get("$pc", None)
            if pc and b in pc:
                npc = frozenset(x for x in pc if x != b)
                st = st.set("$pc", npc if npc else None)
                if not npc:
                    for k in (st.get("$pcw", None) or ()):
                        st = self.dom.set_taint(st, k, True)
                    st = st.set("$pcw", None)
            st = self.widen(b, st)
        key = (b, i, st, self.back_head)
        if key in self.memo:
            return self.memo[key]
        if key in self.stack:
            return self.dd.EMPTY
        self.eng.visited += 1
        if self.eng.visited > 2000000:
            raise Broken("state budget exceeded in %s" % self.fn.name)
        self.stack.add(key)
        res = self._lang(b, i, st)
        self.stack.discard(key)
        if self.eng.visited % 5000 == 0 and self.dd.size(res) > 200000:
            raise Broken("language diagram of %s grows beyond 200000 nodes" % self.fn.name)
        self.memo[key] = res
        return res

    def _lang(self, b, i, st):
        fn = self.fn
        if b == fn.exit:
            return self.dd.EPS
        if self.back_head is not None and b == self.back_head and i == 0:
            return self.dd.leaf((("<back>",),))
        blk = fn.blocks[b]
        if i == 0 and b in self.loops and self.loops[b].body and b != self.back_head:
            return self.loop_lang(self.loops[b], st)
        if i >= len(blk.elems):
            return self.dd.EMPTY if blk.noreturn else self.after_block(blk, st)
        e = blk.elems[i]
        out = self.dd.EMPTY
        for (pref, s2) in self.step(blk, i, e, st):
            rest = self.lang(b, i + 1, s2)
            out = self.dd.union(out, self.dd.concat(pref, rest))
        return out

    def step(self, blk, j, e, st):
        """execute one CFG element: [(diagram of the events it contributes, state after)]"""
        dom = self.dom
        if e.get("k") == "call":
            f = e.get("fn")
            ev = self.event_of(e, st) if f else None
            if ev is not None:
                self.eng.sites.add((self.fn.name, e.get("l"), f))
                s2 = dom.transfer(blk, j, e, st)[0]
                return [(self.dd.leaf(((ev,),)), s2)]
            callee = None
            if f:
                if self.eng.prog.fns(f) and self.eng.collective_fn(f):
                    callee = self.eng.prog.resolve_call(self.fn, f)
            else:
                from callgraph import slot_of_call
                slot = slot_of_call(e)
                if slot:
                    tab = self.eng.cg.tables.get("ncmpio_driver", {})
                    if slot in tab and self.eng.collective_fn(tab[slot]):
                        callee = self.eng.prog.fn(tab[slot])
            if callee is not None and callee.blocks:
                context = self.context_for(callee, e, st)
                s2 = dom.transfer(blk, j, e, st)[0]
                D = self.eng.language(callee, context, self.chain)
                uniform_ctx = not any(isinstance(k, tuple) and k and k[0] in ("$v", "$vb") for k, _ in context)
                if uniform_ctx and self.dd.size(D) > 40:
                    # every input of the callee is rank-uniform: its collectives are a function of
                    # replicated state only (the callee itself has just been checked): keep one token
                    sig = ",".join("%s=%r" % (k[2], v) for k, v in sorted(context, key=str)
                                   if isinstance(k, tuple) and k[0] == "v" and isinstance(v, AVal) and v.kind == "fin")
                    return [(self.dd.leaf((("%s(%s)" % (callee.name, sig),),)), s2)]
                return [(D, s2)]
        return [(self.dd.EPS, x) for x in dom.transfer(blk, j, e, st)]

    def context_for(self, callee, call, st):
        ctx = {}
        dom = self.dom
        rel = self.eng.cond_params(callee)
        for p, a in zip(callee.params, call.get("args", [])):
            pk = ("v", p["id"], p["n"])
            v = dom.eval(a, st)
            if p["n"] in rel and not v.is_top() and (v.kind != "fin" or len(v.s) <= 4):
                ctx[pk] = v
            ak = lvalue_key(a)
            if ak is not None and st.has(("$vb", ak)):
                ctx[("$vb", pk)] = st.get(("$vb", ak))
            elif dom.varying(a, st):
                ctx[("$v", pk)] = ONE
            if ak is not None and ak[0] == "v" and p["n"] in rel:
                o = st.get(("$o", ak), None)
                if isinstance(o, str):
                    ctx[("$o", pk)] = o
                elif ak in self.stable:
                    ctx[("$o", pk)] = "%s.%s" % (self.fn.name, ak[2])
                elif st.has(("$def", ak)):
                    ctx[("$o", pk)] = "%s.%s@%s" % (self.fn.name, ak[2], st.get(("$def", ak)).single())
        return frozenset(ctx.items())

    def after_block(self, blk, st):
        dom = self.dom
        succs = blk.succs
        c = blk.cond
        edges = dom.branch(blk, st)
        if c is not None and len(succs) == 2 and dead_truncation_check(self.fn, blk):
            edges = [(succ, s2) for succ, s2 in edges if succ != succs[0] or succs[0] == succs[1]]
        if not edges:
            return self.dd.EMPTY
        if c is not None and len(succs) == 2 and len(edges) == 1 and succs[0] != succs[1] and blk.term != "switch" \
                and not dom.varying(c, st) and self.collective_result(c, st):
            # The value domain pruned one side because of this rank's own contribution to a collective result (its
            # failing status makes the MPI_MIN result failing).  The tested value is the same on every rank, so the
            # outcome is a fact about all of them: it restricts the valuation, otherwise this path would be paired
            # with another rank's opposite outcome.
            succ, s2 = edges[0]
            d = self.lang(succ, 0, s2)
            atom, negated = atom_norm(strip_pre(c))
            if self.unstable_local(c):
                atom = "%s @%s:%s" % (atom, self.fn.name, blk.tl)
            elif mentions_local(c):
                atom = self.origin_text(atom, c, st)
            truth = (succ == succs[0]) != negated
            a = self.dd.atom(atom)
            return self.dd.ite(a, d, self.dd.EMPTY) if truth else self.dd.ite(a, self.dd.EMPTY, d)
        if blk.term == "switch" or c is None or len(succs) != 2 or len(edges) == 1:
            out = self.dd.EMPTY
            subs = []
            for (succ, s2) in edges:
                d = self.lang(succ, 0, s2)
                subs.append(d)
                out = self.dd.union(out, d)
            if blk.term == "switch" and c is not None and len(set(subs)) > 1 and dom.varying(c, st):
                self.divergences.insert(0, (blk, show(c)[:120], blk.tl))
            return out
        if dom.varying(c, st):
            j = patterns.ipdom(self.fn, blk.id)
            if j is not None and j != self.fn.exit:
                pc = frozenset(st.get("$pc", None) or ()) | {j}
                edges = [(succ, s2.set("$pc", pc)) for succ, s2 in edges]
        sides = {}
        for succ, s2 in edges:
            sides[succ == succs[0]] = self.lang(succ, 0, s2)
        if dom.varying(c, st):
            if sides[True] != sides[False]:
                self.divergences.insert(0, (blk, show(c)[:120], blk.tl))
            return self.dd.union(sides[True], sides[False])
        if sides[True] == sides[False]:
            return sides[True]
        return self.decide(c, st, blk, sides[True], sides[False])

    def decide(self, c, st, blk, Lt, Lf, depth=0):
        """diagram choosing Lt / Lf according to condition c (uniform part as atoms, varying part as union)"""
        dd = self.dd
        if Lt == Lf:
            return Lt
        c = strip_pre(c)
        if isinstance(c, dict) and depth < 6:
            k = c.get("k")
            if k == "un" and c.get("op") == "!":
                return self.decide(c["e"], st, blk, Lf, Lt, depth + 1)
            if k == "cast" and c.get("ck") in ("IntegralToBoolean", "PointerToBoolean", "IntegralCast", "NoOp"):
                return self.decide(c["e"], st, blk, Lt, Lf, depth + 1)
            if k == "bin" and c.get("op") == "&&":
                return self.decide(c["a"], st, blk, self.decide(c["b"], st, blk, Lt, Lf, depth + 1), Lf, depth + 1)
            if k == "bin" and c.get("op") == "||":
                return self.decide(c["a"], st, blk, Lt, self.decide(c["b"], st, blk, Lt, Lf, depth + 1), depth + 1)
            if k == "cond" and const_value(c.get("a")) is not None and const_value(c.get("b")) is not None:
                ta, tb = bool(const_value(c["a"])), bool(const_value(c["b"]))
                if ta and not tb:
                    return self.decide(c["c"], st, blk, Lt, Lf, depth + 1)
                if tb and not ta:
                    return self.decide(c["c"], st, blk, Lf, Lt, depth + 1)
            if k == "ref":
                al = self.aliases.get(lvalue_key(c))
                if al is not None:
                    return self.decide(al, st, blk, Lt, Lf, depth + 1)
            r = self.eng.reasoned(self.fn.name, canon(c))
            if r is not None:
                return Lt if r else Lf
        v = self.dom.eval(c, st)
        if (not v.may_be_zero() or not v.may_be_nonzero()) and not self.dom.varying(c, st) and self.collective_result(c, st):
            # This rank knows the outcome from its own contribution (its failing status makes the MPI_MIN result
            # failing), but the tested value is the same on every rank: the outcome is a fact about all of them and
            # has to restrict the valuation, or this path is paired with another rank's opposite outcome.
            atom, negated = atom_norm(c)
            if self.unstable_local(c):
                atom = "%s @%s:%s" % (atom, self.fn.name, blk.tl)
            elif mentions_local(c):
                atom = self.origin_text(atom, c, st)
            a = dd.atom(atom)
            if not v.may_be_zero():
                return dd.ite(a, dd.EMPTY, Lt) if negated else dd.ite(a, Lt, dd.EMPTY)
            return dd.ite(a, Lf, dd.EMPTY) if negated else dd.ite(a, dd.EMPTY, Lf)
        if not v.may_be_zero():
            return Lt
        if not v.may_be_nonzero():
            return Lf
        if self.dom.varying(c, st):
            return dd.union(Lt, Lf)
        atom, negated = atom_norm(c)
        loc = self.unstable_local(c)
        if loc:
            named = self.def_named(atom, c, st)
            atom = named if named is not None else "%s @%s:%s" % (atom, self.fn.name, blk.tl)
        elif mentions_local(c):
            atom = self.origin_text(atom, c, st)
        a = dd.atom(atom)
        hi, lo = (Lf, Lt) if negated else (Lt, Lf)
        return dd.ite(a, hi, lo)

    def def_named(self, atom, c, st):
        """atom text of a condition over locals that are assigned more than once, named by the one definition that reaches
        this point (`ncmpio_abort.doUnlink@207`) - the same name the callee context uses for the value (param_context), so
        that `if (!doUnlink)` here and the callee's test of the parameter are one atom.  None if some local has no single
        reaching definition."""
        import re
        out = atom
        for x in walk(c, into_pre=True):
            if x.get("k") == "ref" and x.get("dk") in ("local", "param"):
                key = lvalue_key(x)
                if key in self.stable:
                    continue
                d = st.get(("$def", key), None)
                if d is None or not hasattr(d, "single"):
                    return None
                try:
                    line = d.single()
                except Exception:
                    return None
                if line is None:
                    return None
                out = re.sub(r"\b%s\b" % re.escape(x["n"]), "%s.%s@%s" % (self.fn.name, x["n"], line), out)
        return out

    def collective_result(self, c, st):
        for x in walk(c, into_pre=True):
            if x.get("k") == "ref" and x.get("dk") in ("local", "param"):
                if st.has(("$c", lvalue_key(x))):
                    return True
        return False

    def origin_text(self, atom, c, st):
        """name an atom over stable locals/parameters by where their values come from, so that the same
        fact tested in a caller and in two callees is one atom"""
        import re
        local_seen = False
        for x in walk(c, into_pre=True):
            if x.get("k") == "ref" and x.get("dk") in ("local", "param") and x.get("n") not in ("ncp", "pncp", "ncdp", "gbp"):
                key = lvalue_key(x)
                o = st.get(("$o", key), None)
                if isinstance(o, str):
                    atom = re.sub(r"\b%s\b" % re.escape(x["n"]), o, atom)
                else:
                    local_seen = True
        return "%s @%s" % (atom, self.fn.name) if local_seen else atom

    def unstable_local(self, c):
        for x in walk(c, into_pre=True):
            if x.get("k") == "ref" and x.get("dk") in ("local", "param"):
                if lvalue_key(x) not in self.stable:
                    return True
        return False

    # --- loops ------------------------------------------------------------------------------
    def loop_has_events(self, lp):
        if lp.head.id in self.loop_events:
            return self.loop_events[lp.head.id]
        res = False
        for blk, i, e in list(lp.body_elems(ext=False)) + [(lp.head, k, x) for k, x in enumerate(lp.head.elems)]:
            for c in walk(e):
                if c.get("k") == "call":
                    f = c.get("fn")
                    if f in COLLECTIVES_COMM or f in COLLECTIVES_FILE:
                        res = True
                    elif f and self.eng.prog.fns(f) and self.eng.collective_fn(f):
                        res = True
        self.loop_events[lp.head.id] = res
        return res

    def havoc(self, lp, st):
        """state after an unknown number of iterations: variables assigned in the loop lose
        their value; they become varying if assigned from varying data or if the trip
        condition is varying."""
        dom = self.dom
        assigned = {}
        stores = {}
        for blk, i, e in list(lp.body_elems(ext=False)) + [(lp.head, k, x) for k, x in enumerate(lp.head.elems)]:
            for x in walk(e):
                if x.get("k") == "asg":
                    k = lvalue_key(x["a"])
                    if k is not None:
                        assigned.setdefault(k, []).append(x.get("b"))
                        base = k
                        while isinstance(base, tuple) and base[0] in ("i", "d"):
                            base = base[1]
                        if base is not k and isinstance(base, tuple) and base[0] == "v":
                            stores.setdefault(base, []).append(x.get("b"))
                elif x.get("k") == "un" and x.get("op") in ("post++", "pre++", "post--", "pre--"):
                    k = lvalue_key(x["e"])
                    if k is not None:
                        assigned.setdefault(k, []).append(None)
                elif x.get("k") == "decl":
                    for v in x.get("vars", []):
                        if "id" in v:
                            assigned.setdefault(("v", v["id"], v["n"]), []).append(v.get("init"))
                elif x.get("k") == "call":
                    for a in x.get("args", []):
                        sa = strip(a)
                        if isinstance(sa, dict) and sa.get("k") == "un" and sa.get("op") == "&":
                            k = lvalue_key(sa["e"])
                            if k is not None:
                                assigned.setdefault(k, []).append(x)
        cond_var = lp.cond is not None and dom.varying(lp.cond, st)
        s = st
        for k in assigned:
            s = dom.kill(s, k)
        # implicit flows inside the body: assignments in blocks controlled by a varying branch
        ctl_var = self.varying_controlled_blocks(lp, s)
        for blk, i, e in lp.body_elems(ext=False):
            if blk.id not in ctl_var:
                continue
            for x in walk(e):
                k = None
                if x.get("k") == "asg":
                    k = lvalue_key(x["a"])
                elif x.get("k") == "un" and x.get("op") in ("post++", "pre++", "post--", "pre--"):
                    k = lvalue_key(x["e"])
                while isinstance(k, tuple) and k[0] in ("i", "d"):
                    k = k[1]
                if isinstance(k, tuple) and k[0] == "v":
                    s = dom.set_taint(s, k, True)
        for _ in range(3):
            for k, rhss in assigned.items():
                if k[0] != "v":
                    continue
                if cond_var or any(r is not None and dom.varying(r, s) for r in rhss):
                    s = dom.set_taint(s, k, True)
            for k, rhss in stores.items():
                v = self.fn.vars.get(k[1])
                if v is not None and v in self.fn.locals and any(r is not None and dom.varying(r, s) for r in rhss):
                    s = dom.set_taint(s, k, True)
        return s, cond_var

    def varying_controlled_blocks(self, lp, st):
        """blocks of the loop body that execute or not depending on a rank-varying branch of the body"""
        pd = cfg.postdominators(self.fn)
        out = set()
        for b in lp.body:
            blk = self.fn.blocks[b]
            c = blk.cond
            if c is None or len(blk.succs) != 2 or not self.dom.varying(c, st):
                continue
            if dead_truncation_check(self.fn, blk):
                continue
            j = patterns.ipdom(self.fn, b)
            for succ in blk.succs:
                if succ is None:
                    continue
                out |= patterns.region(self.fn, succ, {j} if j is not None else set()) & lp.body
        return out

    def bound_fixed_before_loops(self, lp):
        """every assignment of the variables in the loop bound lies (in source order) before the first loop
        with the same trip condition: the loops of that shape all run the same number of times"""
        b = strip_pre(lp.cond).get("b")
        keys = {lvalue_key(x) for x in walk(b, into_pre=True) if x.get("k") == "ref" and x.get("dk") in ("local", "param")}
        keys.discard(None)
        if not keys:
            return True
        text = canon(lp.cond)
        first = min((l.head.tl or 0) for l in self.loops.values() if l.cond is not None and canon(l.cond) == text)
        for blk, i, e in self.fn.elements():
            for x in walk(e):
                k = None
                if x.get("k") == "asg":
                    k = lvalue_key(x["a"])
                elif x.get("k") == "un" and x.get("op") in ("post++", "pre++", "post--", "pre--"):
                    k = lvalue_key(x["e"])
                if k in keys and (x.get("l") or 0) >= first:
                    return False
        return True

    def _run_head(self, head, st):
        s = st
        for j, e in enumerate(head.elems):
            r = self.dom.transfer(head, j, e, s)
            s = r[0] if r else s
        return s

    def loop_lang(self, lp, st):
        """(body)* exit.  Paths of one body round either come back to the head (<back>) or leave the
        loop for good (return / goto).  Under a valuation where a round can come back, the code after
        the loop follows; rounds that contain collectives are wrapped into one loop token.  Whether the
        loop runs at all is a uniform atom of its own when its trip condition is uniform."""
        head = lp.head
        dd = self.dd
        s_h, cond_var = self.havoc(lp, st)
        exit_h, exit_0, body_states = [], [], []
        for succ, s2 in self.dom.branch(head, self._run_head(head, s_h)):
            (body_states if succ == lp.body_entry else exit_h).append((succ, s2))
        for succ, s2 in self.dom.branch(head, self._run_head(head, st)):
            if succ != lp.body_entry:
                exit_0.append((succ, s2))
        Lexit = dd.EMPTY
        for succ, s2 in exit_h:
            Lexit = dd.union(Lexit, self.lang(succ, 0, s2))
        Lzero = dd.EMPTY
        for succ, s2 in exit_0:
            Lzero = dd.union(Lzero, self.lang(succ, 0, s2))
        if not body_states:
            return Lzero
        saved = self.back_head
        self.back_head = head.id
        Lbody = dd.EMPTY
        try:
            for succ, s2 in body_states:
                Lbody = dd.union(Lbody, self.lang(succ, 0, s2))
        finally:
            self.back_head = saved
        tag = "loop(%s)" % canon(lp.cond)[:60]

        def combine(S, E):
            out = set()
            Sq, Eq = dd.seqs_of(S), dd.seqs_of(E)
            backs = [x[:-1] for x in Sq if x and x[-1] == "<back>"]
            for x in Sq:
                if not (x and x[-1] == "<back>"):
                    out.add(x)
            for bk in backs:
                pre = ((tag,) + bk + ("endloop",)) if bk else ()
                for e in Eq:
                    out.add(pre + e)
                    if len(out) > 4000:
                        raise Broken("sequence set explosion in a loop")
            return dd.leaf(out)
        inner = dd.apply(combine, "loop" + tag, Lbody, Lexit if Lexit != dd.EMPTY else dd.EPS)
        if inner == Lzero or Lzero == dd.EMPTY:
            return inner
        if cond_var:
            self.divergences.insert(0, (head, "loop trip condition " + show(lp.cond)[:90], head.tl))
            return dd.union(inner, Lzero)
        if lp.cond is not None and lp.init is not None and const_value(lp.init) is not None and \
                self.bound_fixed_before_loops(lp):
            a = dd.atom("%s from %s runs @%s" % (tag, const_value(lp.init), self.fn.name))
        else:
            a = dd.atom("%s runs @%s:%s" % (tag, self.fn.name, head.tl))
        return dd.ite(a, inner, Lzero)


def dead_truncation_check(fn, blk):
    """`y = (T)x; if (x != y)` with T as wide as x's type: the test cannot be true on the analysed platform"""
    c = strip_pre(blk.cond)
    if not (isinstance(c, dict) and c.get("k") == "bin" and c.get("op") == "!="):
        return False
    ta, tb = canon(c["a"]), canon(c["b"])
    for e in blk.elems[:-1]:
        if e.get("k") == "asg" and e.get("op") == "=":
            l, r = canon(e["a"]), canon(e["b"])
            if {l, r} == {ta, tb}:
                wl = fn.type(strip(e["a"]).get("t")).get("bits")
                wr = fn.type(strip(e["b"]).get("t")).get("bits") if isinstance(strip(e["b"]), dict) else None
                src = strip(e["b"])
                ws = fn.type(src.get("t")).get("bits") if isinstance(src, dict) else None
                if wl is not None and ws is not None and wl >= ws:
                    return True
    return False


def stable_locals(fn):
    """(locals/params assigned at most once and never passed by address,
        {key: defining expression} for those defined by a side-effect free boolean/flag expression)"""
    count = {}
    defs = {}
    addr = set()
    for p in fn.params:
        count[("v", p["id"], p["n"])] = 0
    for b, i, e in fn.elements():
        for x in walk(e):
            k = x.get("k")
            if k == "asg":
                key = lvalue_key(x["a"])
                if key is not None and key[0] == "v":
                    count[key] = count.get(key, 0) + (1 if x.get("op") == "=" else 2)
                    defs[key] = x.get("b")
            elif k == "un" and x.get("op") in ("post++", "pre++", "post--", "pre--"):
                key = lvalue_key(x["e"])
                if key is not None:
                    count[key] = count.get(key, 0) + 2
            elif k == "decl":
                for v in x.get("vars", []):
                    if "id" in v:
                        key = ("v", v["id"], v["n"])
                        if v.get("init") is not None:
                            count[key] = count.get(key, 0) + 1
                            defs[key] = v["init"]
                        else:
                            count.setdefault(key, 0)
            elif k == "un" and x.get("op") == "&":
                key = lvalue_key(x["e"])
                if key is not None:
                    addr.add(key)
    stable = {k for k, n in count.items() if n <= 1 and k not in addr}
    aliases = {}
    for k in stable:
        d = defs.get(k)
        if d is None:
            continue
        pure = True
        for x in walk(d, into_pre=True):
            if x.get("k") in ("call", "asg") or (x.get("k") == "un" and x.get("op") in ("post++", "pre++", "post--", "pre--", "*")):
                pure = False
            if x.get("k") == "ref" and x.get("dk") in ("local", "param") and lvalue_key(x) not in stable:
                pure = False
        sd = strip_pre(d)
        if pure and isinstance(sd, dict) and sd.get("k") in ("bin", "un", "cond") and \
                (sd.get("k") != "bin" or sd.get("op") in ("&&", "||", "==", "!=", "<", ">", "<=", ">=", "&")):
            aliases[k] = d
    return stable, aliases


def mentions_local(c):
    for x in walk(c, into_pre=True):
        if x.get("k") == "ref" and x.get("dk") in ("local", "param"):
            t = x.get("n")
            if t not in ("ncp", "pncp", "ncdp", "gbp"):
                return True
    return False


def cons_merge(a, b):
    m = a
    for x, v in b:
        m = add_constraint(m, x, v)
        if m is None:
            return None
    return m


def seqs_differ(Lt, Lf):
    """do the two sides of a varying branch admit different sequences under some common valuation?"""
    for c1, s1 in Lt:
        for c2, s2 in Lf:
            if s1 != s2 and compatible(c1, c2):
                return True
    return False


def atom_norm(c):
    """(canonical text, negated) of an atomic branch condition, so that X, !X, X != 0,
    X == 0, a <= b / a > b ... all refer to the same uniform atom."""
    c = strip_pre(c)
    neg = False
    for _ in range(8):
        if not isinstance(c, dict):
            break
        if c.get("k") == "un" and c.get("op") == "!":
            c = strip_pre(c["e"])
            neg = not neg
            continue
        if c.get("k") == "cast" and c.get("ck") in ("IntegralToBoolean", "PointerToBoolean", "IntegralCast"):
            c = strip_pre(c["e"])
            continue
        if c.get("k") == "bin" and c.get("op") in ("==", "!=") and const_value(c.get("b")) == 0 \
                and macro_of(c.get("b")) in (None, "NULL", "NC_NOERR", "MPI_SUCCESS"):
            inner = strip_pre(c["a"])
            if c["op"] == "==":
                neg = not neg
            c = inner
            continue
        break
    if isinstance(c, dict) and c.get("k") == "bin":
        op = c.get("op")
        if op == "!=":
            return "%s == %s" % (canon(c["a"]), canon(c["b"])), not neg
        if op == "<=":
            return "%s > %s" % (canon(c["a"]), canon(c["b"])), not neg
        if op == ">=":
            return "%s < %s" % (canon(c["a"]), canon(c["b"])), not neg
    return canon(c), neg
