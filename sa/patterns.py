"""Reusable structural queries over functions: switch tables, arm contents,
call-site dominance, argument wiring."""
import re

import cfg
from facts import walk, strip, strip_pre, const_value, lvalue_key, show


def switches(fn):
    """[(switch_block, cond_expr, {label: succ_block_id}, default_succ)] with
    label = macro name of the case constant when there is one, else its value."""
    out = []
    for bid, blk in fn.blocks.items():
        if blk.term != "switch":
            continue
        arms, default = {}, None
        for s in blk.succs:
            if s is None:
                continue
            lab = fn.blocks[s].label
            if lab and lab.get("k") == "case":
                arms[lab.get("m") or lab.get("lo")] = s
            elif lab and lab.get("k") == "default":
                default = s
        out.append((blk, blk.cond, arms, default))
    return out


def ipdom(fn, bid):
    """immediate post-dominator block id of bid (None if none)."""
    pd = cfg.postdominators(fn)
    cands = pd.get(bid, set()) - {bid}
    best = None
    for c in cands:
        # the immediate one is post-dominated by all other candidates
        if all((o == c) or (o in pd.get(c, ())) for o in cands):
            best = c
    return best


def region(fn, start, stop):
    """blocks reachable from start without entering any block in stop."""
    seen = set()
    st = [start]
    while st:
        b = st.pop()
        if b in seen or b in stop or b is None:
            continue
        seen.add(b)
        st.extend(s for s in fn.blocks[b].succs if s is not None)
    return seen


def arm_region(fn, sw_block, arm_start):
    """blocks of one switch arm up to the switch's join; fall-through into the
    next case label is included (C semantics)."""
    j = ipdom(fn, sw_block.id)
    stop = {j} if j is not None else set()
    return region(fn, arm_start, stop)


def calls_in_blocks(fn, blocks):
    out = []
    for b in sorted(blocks, reverse=True):
        for e in fn.blocks[b].elems:
            for c in walk(e):
                if c.get("k") == "call":
                    out.append(c)
    return out


def call_sites(fn, name_pred):
    """[(block, idx, call)] of direct calls whose callee name satisfies name_pred."""
    out = []
    for b, i, e in fn.elements():
        for c in walk(e):
            if c.get("k") == "call" and c.get("fn") and name_pred(c["fn"]):
                out.append((b, i, c))
    return out


def dominated_by_call(fn, pos, name_pred):
    """is program point pos=(block id, idx) dominated by a call satisfying name_pred?
    returns the dominating call or None."""
    for b, i, c in call_sites(fn, name_pred):
        if cfg.pos_dominates(fn, (b.id, i), pos):
            return c
    return None


def arg_is_var(arg, name):
    a = strip(arg)
    return isinstance(a, dict) and a.get("k") == "ref" and a.get("n") == name


def arg_var_name(arg):
    a = strip(arg)
    if isinstance(a, dict) and a.get("k") == "ref":
        return a.get("n")
    if isinstance(a, dict) and a.get("k") == "un" and a.get("op") == "&":
        e = strip(a["e"])
        if isinstance(e, dict) and e.get("k") == "ref":
            return "&" + e.get("n")
    return None


NC_TOKEN = re.compile(r"NC_(BYTE|UBYTE|CHAR|SHORT|USHORT|INT64|UINT64|INT|UINT|FLOAT|DOUBLE)(?![A-Z0-9])")


def nc_tokens(name):
    return NC_TOKEN.findall(name or "")
