"""Reusable structural queries over functions: switch tables, arm contents,
call-site dominance, argument wiring."""
import re

import cfg
from facts import walk, strip, strip_pre, const_value, lvalue_key, show


def switches(fn):
    """[(switch_block, cond_expr, {label: succ_block_id}, default_succ)] with
    label = macro name of the case constant when there is one, else its value."""
    out = []
    for bid, blk in fn.blocks.items():
        if blk.term != "switch":
            continue
        arms, default = {}, None
        for s in blk.succs:
            if s is None:
                continue
            lab = fn.blocks[s].label
            if lab and lab.get("k") == "case":
                arms[lab.get("m") or lab.get("lo")] = s
            elif lab and lab.get("k") == "default":
                default = s
        out.append((blk, blk.cond, arms, default))
    return out


def ipdom(fn, bid):
    """immediate post-dominator block id of bid (None if none)."""
    pd = cfg.postdominators(fn)
    cands = pd.get(bid, set()) - {bid}
    best = None
    for c in cands:
        # the immediate one is post-dominated by all other candidates
        if all((o == c) or (o in pd.get(c, ())) for o in cands):
            best = c
    return best


def region(fn, start, stop):
    """blocks reachable from start without entering any block in stop."""
    seen = set()
    st = [start]
    while st:
        b = st.pop()
        if b in seen or b in stop or b is None:
            continue
        seen.add(b)
        st.extend(s for s in fn.blocks[b].succs if s is not None)
    return seen


def switch_join(fn, sw_block):
    """the block control reaches after a `break` out of this switch.  The immediate post-dominator is that block
    unless some arm returns (then only the function exit post-dominates): in that case take the nearest block that
    every arm which does not leave the function can reach."""
    j = ipdom(fn, sw_block.id)
    if j is not None and j != fn.exit:
        return j
    arms = [s for s in sw_block.succs if s is not None]
    reach = []
    for a in arms:
        r = region(fn, a, set())
        if r - {fn.exit}:
            reach.append(r)
    if not reach:
        return j
    common = set.intersection(*reach) - {fn.exit}
    # arms that return at once have no common successor with the others: ignore arms whose reach misses the majority's
    if not common and len(reach) > 2:
        from collections import Counter
        cnt = Counter(b for r in reach for b in r)
        common = {b for b, c in cnt.items() if c >= len(reach) - 1} - {fn.exit}
    if not common:
        return j
    # nearest in breadth-first order from the switch
    dist = {sw_block.id: 0}
    q = [sw_block.id]
    while q:
        x = q.pop(0)
        for s_ in fn.blocks[x].succs:
            if s_ is not None and s_ not in dist:
                dist[s_] = dist[x] + 1
                q.append(s_)
    # the join dominates the rest of the common blocks: it is the common block from which all other common blocks are reachable
    best = min(common, key=lambda b: (0 if all(c == b or c in region(fn, b, set()) for c in common) else 1, dist.get(b, 1 << 30)))
    return best


def arm_region(fn, sw_block, arm_start):
    """blocks of one switch arm up to the switch's join; fall-through into the
    next case label is included (C semantics)."""
    j = switch_join(fn, sw_block)
    stop = {j} if j is not None else set()
    return region(fn, arm_start, stop)


def calls_in_blocks(fn, blocks):
    out = []
    for b in sorted(blocks, reverse=True):
        for e in fn.blocks[b].elems:
            for c in walk(e):
                if c.get("k") == "call":
                    out.append(c)
    return out


def call_sites(fn, name_pred):
    """[(block, idx, call)] of direct calls whose callee name satisfies name_pred."""
    out = []
    for b, i, e in fn.elements():
        for c in walk(e):
            if c.get("k") == "call" and c.get("fn") and name_pred(c["fn"]):
                out.append((b, i, c))
    return out


def dominated_by_call(fn, pos, name_pred):
    """is program point pos=(block id, idx) dominated by a call satisfying name_pred?
    returns the dominating call or None."""
    for b, i, c in call_sites(fn, name_pred):
        if cfg.pos_dominates(fn, (b.id, i), pos):
            return c
    return None


def arg_is_var(arg, name):
    a = strip(arg)
    return isinstance(a, dict) and a.get("k") == "ref" and a.get("n") == name


def arg_var_name(arg):
    a = strip(arg)
    if isinstance(a, dict) and a.get("k") == "ref":
        return a.get("n")
    if isinstance(a, dict) and a.get("k") == "un" and a.get("op") == "&":
        e = strip(a["e"])
        if isinstance(e, dict) and e.get("k") == "ref":
            return "&" + e.get("n")
    return None


NC_TOKEN = re.compile(r"NC_(BYTE|UBYTE|CHAR|SHORT|USHORT|INT64|UINT64|INT|UINT|FLOAT|DOUBLE)(?![A-Z0-9])")


def nc_tokens(name):
    return NC_TOKEN.findall(name or "")


# ---------------------------------------------------------------------------
# natural loops as clang's CFG presents them
# ---------------------------------------------------------------------------

class Loop:
    def __init__(self, fn, head):
        self.fn = fn
        self.head = head                      # Block with the loop condition
        self.cond = head.cond
        self.body_entry = head.succs[0] if head.succs else None
        self.exit = head.succs[1] if len(head.succs) > 1 else None
        self.body = set()
        if self.body_entry is not None:
            # blocks reachable from the body entry that can come back to the head
            reach = region(fn, self.body_entry, {head.id})
            back = set()
            st = [p for p in head.preds if p in reach]
            while st:
                b = st.pop()
                if b in back:
                    continue
                back.add(b)
                st.extend(p for p in fn.blocks[b].preds if p in reach)
            self.body = back
            # body plus the blocks that leave the loop through break/return/goto
            self.body_ext = region(fn, self.body_entry, {head.id} | ({self.exit} if self.exit is not None else set()))
        else:
            self.body_ext = set()
        self.var = None       # induction variable name
        self.var_key = None
        self.bound = None     # expression the variable is compared with
        self.op = None
        c = strip_pre(self.cond)
        if isinstance(c, dict) and c.get("k") == "bin" and c.get("op") in ("<", "<=", ">", ">=", "!="):
            a = strip(c["a"])
            if isinstance(a, dict) and a.get("k") == "ref":
                self.var, self.var_key, self.bound, self.op = a["n"], lvalue_key(a), c["b"], c["op"]
        self.init = None      # initial value expression of the induction variable
        self.step = None      # '++', '--' or ('+=', expr)
        if self.var_key is not None:
            for p in head.preds:
                if p in self.body:
                    for e in reversed(fn.blocks[p].elems):
                        s = self._step_of(e)
                        if s:
                            self.step = s
                            break
                else:
                    # walk back through single-predecessor chains looking for the initialisation
                    b = p
                    hops = 0
                    while b is not None and self.init is None and hops < 6:
                        for e in reversed(fn.blocks[b].elems):
                            v = self._init_of(e)
                            if v is not None:
                                self.init = v
                                break
                        preds = fn.blocks[b].preds
                        b = preds[0] if len(preds) == 1 else None
                        hops += 1

    def _step_of(self, e):
        for x in walk(e):
            if x.get("k") == "un" and x.get("op") in ("post++", "pre++", "post--", "pre--") \
                    and lvalue_key(x["e"]) == self.var_key:
                return "++" if "++" in x["op"] else "--"
            if x.get("k") == "asg" and x.get("op") in ("+=", "-=") and lvalue_key(x["a"]) == self.var_key:
                return (x["op"], x["b"])
        return None

    def _init_of(self, e):
        if e.get("k") == "asg" and e.get("op") == "=" and lvalue_key(e["a"]) == self.var_key:
            return e["b"]
        if e.get("k") == "decl":
            for v in e.get("vars", []):
                if v.get("n") == self.var and v.get("init") is not None and ("v", v.get("id"), v["n"]) == self.var_key:
                    return v["init"]
        for x in walk(e):
            if x is not e and x.get("k") == "asg" and x.get("op") == "=" and lvalue_key(x["a"]) == self.var_key:
                return x["b"]
        return None

    def body_elems(self, ext=True):
        for b in sorted(self.body_ext if ext else self.body, reverse=True):
            for i, e in enumerate(self.fn.blocks[b].elems):
                yield self.fn.blocks[b], i, e

    def indexed_by_var(self):
        """idx nodes in the body (and the head condition) whose index is the induction variable."""
        out = []
        for blk, i, e in self.body_elems():
            for x in walk(e):
                if x.get("k") == "idx" and lvalue_key(x.get("i")) == self.var_key:
                    out.append(x)
        return out


def loops(fn):
    out = []
    for bid, blk in sorted(fn.blocks.items(), reverse=True):
        if blk.term in ("for", "while", "do") and blk.cond is not None and len(blk.succs) == 2:
            out.append(Loop(fn, blk))
    return out
